"""ICAO standard atmosphere (Doc 7488) up to 20 km, two layers, written independently of aero.py."""
import math

G0, RGAS, T0, P0, LAPSE, H11, T11 = 9.80665, 287.05287, 288.15, 101325.0, 0.0065, 11000.0, 216.65
EXP = G0 / (RGAS * LAPSE)  # 5.25588
P11 = P0 * (T11 / T0) ** EXP

# (h m, T K, p Pa, rho kg/m3) from the ICAO standard atmosphere tables
TABLE = [(-500, 291.40, 107477.0, 1.28489), (0, 288.15, 101325.0, 1.22500), (1000, 281.65, 89874.6, 1.11164), (2000, 275.15, 79495.2, 1.00649),
         (5000, 255.65, 54019.9, 0.736116), (8000, 236.15, 35599.8, 0.525168), (11000, 216.65, 22632.1, 0.363918), (15000, 216.65, 12044.6, 0.193674),
         (20000, 216.65, 5474.89, 0.0880349)]


def atmos(h):
    if h <= H11:
        t = T0 - LAPSE * h
        p = P0 * (t / T0) ** EXP
    else:
        t = T11
        p = P11 * math.exp(-G0 * (h - H11) / (RGAS * T11))
    return p, p / (RGAS * t), t


for _h, _t, _p, _r in TABLE:
    _pp, _rr, _tt = atmos(_h)
    assert abs(_tt - _t) < 0.01 and abs(_pp / _p - 1) < 2e-4 and abs(_rr / _r - 1) < 2e-4, (_h, _pp, _rr, _tt)

KTS, FT = 0.514444, 0.3048
A0 = math.sqrt(1.4 * RGAS * T0)


def mach2tas(mach, h):
    return mach * math.sqrt(1.4 * RGAS * atmos(h)[2])


def mach2cas(mach, h):
    """Compressible (isentropic) pitot relation, ICAO ISA; h in metres, result m/s."""
    p = atmos(h)[0]
    qc = p * ((1 + 0.2 * mach * mach) ** 3.5 - 1)
    return A0 * math.sqrt(5 * ((qc / P0 + 1) ** (2 / 7.0) - 1))


def cas2tas(cas, h):
    p, rho, t = atmos(h)
    qc = P0 * ((1 + 0.2 * (cas / A0) ** 2) ** 3.5 - 1)
    mach = math.sqrt(5 * ((qc / p + 1) ** (2 / 7.0) - 1))
    return mach * math.sqrt(1.4 * RGAS * t)
