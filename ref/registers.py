"""Reference format rules of the Comm-B registers that pyModeS infers (ICAO Doc 9871 layouts + the plausibility envelope quoted in property C12).

verdict(reg, mb, df, ac13) -> "valid"  : status-consistent, reserved bits clear, inside the envelope  => the register must be accepted
                              "broken" : a status bit is clear while a magnitude bit of its field is set, a reserved bit is set, or the
                                         register identifier byte / character set / source code is illegal  => must be rejected
                              "open"   : anything else (e.g. outside the envelope, sign bit alone set): not judged
"""
from . import doc9871 as D
from . import gillham, isa

# (status bit, sign bit or None, first magnitude bit, last)
STATUS = {
    "40": [(1, None, 2, 13), (14, None, 15, 26), (27, None, 28, 39), (48, None, 49, 51), (54, None, 55, 56)],
    "50": [(1, 2, 3, 11), (12, 13, 14, 23), (24, None, 25, 34), (35, 36, 37, 45), (46, None, 47, 56)],
    "60": [(1, 2, 3, 12), (13, None, 14, 23), (24, None, 25, 34), (35, 36, 37, 45), (46, 47, 48, 56)],
    "53": [(1, 2, 3, 12), (13, None, 14, 23), (24, None, 25, 33), (34, None, 35, 46), (47, 48, 49, 56)],
    "44": [(5, None, 6, 23), (35, None, 36, 46), (47, None, 48, 49), (50, None, 51, 56)],
    "45": [(1, None, 2, 3), (4, None, 5, 6), (7, None, 8, 9), (10, None, 11, 12), (13, None, 14, 15), (16, 17, 18, 26), (27, None, 28, 38), (39, None, 40, 51)],
}
RESERVED = {"40": [(40, 47), (52, 53)], "45": [(52, 56)], "10": [(10, 14)], "17": [(25, 56)]}
LEGAL_CHARS = set(range(1, 27)) | {32} | set(range(48, 58))


def g(mb, a, b):
    return D.getbits(mb, a, b)


def signed(mb, sign, first, last):
    v = g(mb, first, last)
    return v - (1 << (last - first + 1)) if g(mb, sign, sign) else v


def _status_rules(reg, mb):
    """'broken' if a status rule is violated through a magnitude bit, 'open' if only through a sign bit, else 'ok'."""
    res = "ok"
    for st, sg, first, last in STATUS.get(reg, []):
        if g(mb, st, st) == 0:
            if g(mb, first, last) != 0:
                return "broken"
            if sg is not None and g(mb, sg, sg):
                res = "open"
    for a, b in RESERVED.get(reg, []):
        if g(mb, a, b) != 0:
            return "broken"
    return res


def verdict(reg, mb, df=21, ac13=0):
    if mb == 0:
        return "broken"  # an all-zero payload is EMPTY, never a register
    s = _status_rules(reg, mb)
    if s == "broken":
        return "broken"
    if reg == "10":
        if g(mb, 1, 8) != 0x10:
            return "broken"
        ovc, ver = g(mb, 15, 15), g(mb, 17, 23)
        return "valid" if (ovc == 1 and ver >= 5) or (ovc == 0 and ver <= 4) else "open"
    if reg == "17":
        return "valid" if g(mb, 7, 7) else "open"  # a transponder that supports GICB reports BDS 2,0
    if reg == "20":
        if g(mb, 1, 8) != 0x20:
            return "broken"
        chars = [g(mb, 9 + 6 * k, 14 + 6 * k) for k in range(8)]
        if all(c == 0 for c in chars):
            return "valid"
        return "valid" if all(c in LEGAL_CHARS for c in chars) else "broken"
    if reg == "30":
        if g(mb, 1, 8) != 0x30:
            return "broken"
        return "valid" if g(mb, 29, 30) != 3 and g(mb, 16, 22) < 48 else "open"
    if s == "open":
        return "open"
    if reg == "40":
        return "valid"
    if reg == "53":
        return "open"  # no plausibility envelope is stated for BDS 5,3: only its status rules are judged
    if reg == "50":
        roll = signed(mb, 2, 3, 11) * 45 / 256 if g(mb, 1, 1) else None
        gs = g(mb, 25, 34) * 2 if g(mb, 24, 24) else None
        tas = g(mb, 47, 56) * 2 if g(mb, 46, 46) else None
        ok = (roll is None or abs(roll) <= 50) and (gs is None or gs <= 600) and (tas is None or tas <= 600) and \
             (gs is None or tas is None or abs(tas - gs) <= 200)
        return "valid" if ok else "open"
    if reg == "60":
        ias = g(mb, 14, 23) if g(mb, 13, 13) else None
        mach = g(mb, 25, 34) * 2.048 / 512 if g(mb, 24, 24) else None
        vrb = signed(mb, 36, 37, 45) * 32 if g(mb, 35, 35) else None
        vri = signed(mb, 47, 48, 56) * 32 if g(mb, 46, 46) else None
        ok = (ias is None or ias <= 500) and (mach is None or mach <= 1) and (vrb is None or abs(vrb) <= 6000) and (vri is None or abs(vri) <= 6000)
        if not ok:
            return "open"
        if ias is not None and mach is not None and df == 20:
            alt = gillham.altitude13(ac13)
            if alt[0] == "none":
                return "valid"
            cas = isa.mach2cas(mach, alt[1] * isa.FT) / isa.KTS
            if abs(ias - cas) <= 18:
                return "valid"
            return "open"  # 18..22 kt: within rounding of the 20 kt rule; beyond: outside the envelope
        return "valid"
    if reg == "44":
        if g(mb, 1, 4) > 4:
            return "broken"
        wind = g(mb, 6, 14) if g(mb, 5, 5) else None
        t = signed(mb, 24, 25, 34) * 0.25
        return "valid" if (wind is None or wind <= 250) and -80 <= t <= 60 else "open"
    if reg == "45":
        t = signed(mb, 17, 18, 26) * 0.25
        return "valid" if -80 <= t <= 60 else "open"
    raise KeyError(reg)
