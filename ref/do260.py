"""DO-260A/B ME layouts as (field, width) lists, MSB first (56 bits), plus small encoding rules."""
TC29_V2 = [("tc", 5), ("subtype", 2), ("sil_sup", 1), ("alt_src", 1), ("alt", 11), ("baro", 9), ("hdg_status", 1), ("hdg_sign", 1), ("hdg", 8),
           ("nacp", 4), ("nicbaro", 1), ("sil", 2), ("mode_status", 1), ("ap", 1), ("vnav", 1), ("althold", 1), ("adsr", 1), ("app", 1),
           ("tcas", 1), ("lnav", 1), ("rsv", 2)]
TC29_V1 = [("tc", 5), ("subtype", 2), ("vsrc", 2), ("alt_type", 1), ("bcf", 1), ("alt_cap", 2), ("vmode", 2), ("talt", 10), ("hsrc", 2),
           ("angle", 9), ("angle_ind", 1), ("hmode", 2), ("nacp", 4), ("nicbaro", 1), ("sil", 2), ("rsv", 5), ("tcas_notop", 1), ("ra", 1), ("emerg", 3)]
TC31 = [("tc", 5), ("subtype", 3), ("cc_hi", 11), ("nic_c", 1), ("cc_lo", 4), ("om", 16), ("version", 3), ("nic_a", 1), ("nacp", 4), ("gva", 2),
        ("sil", 2), ("nicbaro", 1), ("hrd", 1), ("sil_sup", 1), ("rsv", 1)]
TC28 = [("tc", 5), ("subtype", 3), ("state", 3), ("idcode", 13), ("rsv", 32)]
for _l in (TC29_V2, TC29_V1, TC31, TC28):
    assert sum(w for _, w in _l) == 56, _l


def pack(layout, values, rng):
    """values: dict of fixed fields; the rest random from rng. Returns (me, full dict)."""
    me = 0
    full = {}
    corner = None
    for name, w in layout:
        if name in values:
            v = values[name]
        else:
            # free fields: uniformly random in three of four messages, in the fourth every free field sits on a corner of its range
            # (0, 1, max-1, max), so that combinations of special values in several fields at once occur regularly
            if corner is None:
                corner = rng.getrandbits(2) == 0
            v = rng.choice([0, (1 << w) - 1, 1 % (1 << w), ((1 << w) - 2) % (1 << w), rng.getrandbits(w)]) if corner else rng.getrandbits(w)
        full[name] = v
        me = (me << w) | v
    return me, full


def selected_heading(status, sign, n):
    """DO-260B table 2-78: angular weighted binary, sign bit = 180 deg."""
    if not status:
        return None
    return ((256 * sign + n) * 180.0 / 256.0) % 360.0


# TC -> NUCp (DO-260), TC -> NIC for the type codes whose NIC does not depend on a supplement (DO-260A/B)
TC_NUCP = {5: 9, 6: 8, 7: 7, 8: 6, 9: 9, 10: 8, 11: 7, 12: 6, 13: 5, 14: 4, 15: 3, 16: 2, 17: 1, 18: 0, 20: 9, 21: 8, 22: 0}
TC_NIC_FIXED = {5: 11, 6: 10, 9: 11, 10: 10, 12: 7, 13: 6, 14: 5, 15: 4, 17: 1, 18: 0, 20: 11, 21: 10, 22: 0}
NIC_V1_SUPP = {11: {1: 9, 0: 8}, 16: {1: 3, 0: 2}}  # airborne, NIC supplement
NIC_V2_SUPP = {7: {(1, 0): 9, (0, 0): 8}, 8: {(1, 1): 7, (1, 0): 6, (0, 1): 6, (0, 0): 0}, 11: {(1, 1): 9, (0, 0): 8}, 16: {(1, 1): 3, (0, 0): 2}}
POSITION_TCS = list(range(5, 9)) + list(range(9, 19)) + [20, 21, 22]
