"""DO-260B compact position reporting: reference NL and *encoder* (A.1.7.3), independent of the decoder."""
import math

NZ = 15
# Transition latitudes printed in DO-260B table A-21 (NL -> latitude below which NL applies), 8 decimals
PRINTED = {
    59: 10.47047130, 58: 14.82817437, 57: 18.18626357, 56: 21.02939493, 55: 23.54504487, 54: 25.82924707,
    53: 27.93898710, 52: 29.91135686, 51: 31.77209708, 50: 33.53993436, 49: 35.22899598, 48: 36.85025108,
    47: 38.41241892, 46: 39.92256684, 45: 41.38651832, 44: 42.80914012, 43: 44.19454951, 42: 45.54626723,
    41: 46.86733252, 40: 48.16039128, 39: 49.42776439, 38: 50.67150166, 37: 51.89342469, 36: 53.09516153,
    35: 54.27817472, 34: 55.44378444, 33: 56.59318756, 32: 57.72747354, 31: 58.84763776, 30: 59.95459277,
    29: 61.04917774, 28: 62.13216659, 27: 63.20427479, 26: 64.26616523, 25: 65.31845310, 24: 66.36171008,
    23: 67.39646774, 22: 68.42322022, 21: 69.44242631, 20: 70.45451075, 19: 71.45986473, 18: 72.45884545,
    17: 73.45177442, 16: 74.43893416, 15: 75.42056257, 14: 76.39684391, 13: 77.36789461, 12: 78.33374083,
    11: 79.29428225, 10: 80.24923213, 9: 81.19801349, 8: 82.13956981, 7: 83.07199445, 6: 83.99173563,
    5: 84.89166191, 4: 85.75541621, 3: 86.53536998, 2: 87.0,
}


def _trans(nl):
    """Latitude at which NL drops from nl to nl-1 (nl = 3..59), from the closed form."""
    a = 1 - math.cos(math.pi / (2 * NZ))
    return math.degrees(math.acos(math.sqrt(a / (1 - math.cos(2 * math.pi / nl)))))


TRANS = {nl: _trans(nl) for nl in range(3, 60)}
TRANS[2] = 87.0
for _nl, _v in PRINTED.items():
    if abs(TRANS[_nl] - _v) > 6e-9:
        raise AssertionError("NL transition %d: formula %.10f vs printed %.8f" % (_nl, TRANS[_nl], _v))
TRANS_LIST = sorted(TRANS.values())  # ascending latitude; TRANS_LIST[k] is the boundary below which NL = 59-k
EPS = 1e-9


def NL(lat):
    """Reference NL.  Exactly 87 -> 2, beyond -> 1."""
    a = abs(lat)
    if a > 87.0:
        return 1
    for nl in range(59, 2, -1):
        if a < TRANS[nl]:
            return nl
    return 2


def NL_set(lat):
    """Set of acceptable NL values: both neighbours within 1e-9 deg of a transition latitude."""
    a = abs(lat)
    if a == 87.0:
        return {2}   # "2 for |lat| up to and including 87": stated for this latitude by name, and 87.0 is exactly representable
    s = {NL(a)}
    for nl, t in TRANS.items():
        if abs(a - t) <= EPS:
            s.add(nl)
            s.add(nl - 1)
    return s


def near_transition(lat, tol=EPS):
    a = abs(lat)
    return any(abs(a - t) <= tol for t in TRANS.values())


def _zone(x, d):
    """(floor(x/d), MOD(x,d)/d) computed consistently (x % d and floor(x / d) can disagree by one zone in floats)."""
    q = math.floor(x / d)
    r = x - q * d
    if r < 0:
        q -= 1
        r += d
    elif r >= d:
        q += 1
        r -= d
    return q, r / d


def encode(lat, lon, i, surface=False):
    """DO-260B A.1.7.3.  Returns dict(yz, xz (17-bit), rlat, rlon (the encoded = bin-centre position),
    dlat_step, dlon_step (one quantisation step of the transmitted frame, degrees), nl)."""
    nb = 19 if surface else 17
    dlat = 360.0 / (4 * NZ - i)
    zlat, flat = _zone(lat, dlat)
    yz = math.floor(2 ** nb * flat + 0.5)
    rlat = dlat * (yz / 2 ** nb + zlat)
    nl = NL(rlat)
    ni = nl - i
    dlon = 360.0 / ni if ni > 0 else 360.0
    zlon, flon = _zone(lon, dlon)
    xz = math.floor(2 ** nb * flon + 0.5)
    rlon = dlon * (xz / 2 ** nb + zlon)
    return {
        "yz": yz % 2 ** 17, "xz": xz % 2 ** 17, "rlat": rlat, "rlon": rlon, "nl": nl,
        "dlat_step": dlat / 2 ** nb, "dlon_step": dlon / 2 ** nb,
    }


def me_airborne(tc, i, yz, xz, alt12=0, ss=0, saf=0, t=0):
    return (tc << 51) | (ss << 49) | (saf << 48) | (alt12 << 36) | (t << 35) | (i << 34) | (yz << 17) | xz


def me_surface(tc, i, yz, xz, mov=0, s=0, trk=0, t=0):
    return (tc << 51) | (mov << 44) | (s << 43) | (trk << 36) | (t << 35) | (i << 34) | (yz << 17) | xz


def lon_diff(a, b):
    """Smallest absolute difference of two longitudes modulo 360."""
    d = (a - b) % 360.0
    return min(d, 360.0 - d)


NM = 1852.0
R_EARTH = 6371000.0


def haversine_m(lat1, lon1, lat2, lon2):
    p1, p2 = math.radians(lat1), math.radians(lat2)
    dphi = p2 - p1
    dl = math.radians(lon2 - lon1)
    h = math.sin(dphi / 2) ** 2 + math.cos(p1) * math.cos(p2) * math.sin(dl / 2) ** 2
    return 2 * R_EARTH * math.asin(min(1.0, math.sqrt(h)))
