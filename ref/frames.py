"""Frame builders for every downlink format, fields as parameters, parity per ref.crc24."""
from . import crc24


def pack(fields):
    """fields: list of (value, width) MSB first -> (int, total_width)."""
    v = 0
    n = 0
    for val, w in fields:
        if val < 0 or val >> w:
            raise ValueError("field value %r does not fit %d bits" % (val, w))
        v = (v << w) | val
        n += w
    return v, n


def tohex(value, nbits, case="U"):
    s = "%0*X" % (nbits // 4, value)
    if case == "L":
        return s.lower()
    if case == "M":  # mixed: alternate per letter position
        out = []
        k = 0
        for ch in s:
            if ch.isalpha():
                out.append(ch.lower() if k % 2 else ch)
                k += 1
            else:
                out.append(ch)
        return "".join(out)
    return s


def raw(df, body, nbits, overlay=0):
    """DF (5 bits) + body (nbits-29 bits) + parity^overlay."""
    data, nd = pack([(df, 5), (body, nbits - 29)])
    return crc24.downlink_frame(data, nd, overlay)


def short_ap(df, body27, addr):
    return raw(df, body27, 56, addr)


def long_ap(df, body83, addr):
    return raw(df, body83, 112, addr)


def df0(addr, vs=0, cc=0, sl=0, ri=0, ac=0, spare=0):
    body, n = pack([(vs, 1), (cc, 1), (spare & 1, 1), (sl, 3), ((spare >> 1) & 3, 2), (ri, 4), ((spare >> 3) & 3, 2), (ac, 13)])
    return raw(0, body, 56, addr)


def df4(addr, fs=0, dr=0, um=0, ac=0):
    body, n = pack([(fs, 3), (dr, 5), (um, 6), (ac, 13)])
    return raw(4, body, 56, addr)


def df5(addr, fs=0, dr=0, um=0, idc=0):
    body, n = pack([(fs, 3), (dr, 5), (um, 6), (idc, 13)])
    return raw(5, body, 56, addr)


def df11(aa, ca=0, code=0):
    """code = (CL<<4 | IC) overlaid on parity (7 bits used) or any 24-bit overlay."""
    body, n = pack([(ca, 3), (aa, 24)])
    return raw(11, body, 56, code)


def df16(addr, head27=0, mv=0):
    body, n = pack([(head27, 27), (mv, 56)])
    return raw(16, body, 112, addr)


def df17(aa, me, ca=5, df=17, overlay=0):
    body, n = pack([(ca, 3), (aa, 24), (me, 56)])
    return raw(df, body, 112, overlay)


def df20(addr, mb, fs=0, dr=0, um=0, ac=0):
    body, n = pack([(fs, 3), (dr, 5), (um, 6), (ac, 13), (mb, 56)])
    return raw(20, body, 112, addr)


def df21(addr, mb, fs=0, dr=0, um=0, idc=0):
    body, n = pack([(fs, 3), (dr, 5), (um, 6), (idc, 13), (mb, 56)])
    return raw(21, body, 112, addr)


def commb(df, addr, mb, head27=0):
    body, n = pack([(head27, 27), (mb, 56)])
    return raw(df, body, 112, addr)


def me_from(fields):
    v, n = pack(fields)
    if n != 56:
        raise ValueError("ME/MB must be 56 bits, got %d" % n)
    return v


# ---------------------------------------------------------------------------- frames whose parity field repeats digits of the data part
def affine_solve(f, nbits):
    """f: an affine map over GF(2) of an nbits-bit integer (any output width).  Returns an x with f(x) == 0, or None."""
    c = f(0)
    rows = []   # (vector, combination) pairs in echelon form
    for i in range(nbits):
        v, comb = f(1 << i) ^ c, 1 << i
        for (rv, rc) in rows:
            if v ^ rv < v:
                v, comb = v ^ rv, comb ^ rc
        if v:
            rows.append((v, comb))
            rows.sort(reverse=True)
    x, t = 0, c
    for (rv, rc) in rows:
        if t ^ rv < t:
            t, x = t ^ rv, x ^ rc
    return x if t == 0 and f(x) == 0 else None


def df11_pi_repeats(ca, code, k):
    """an all-call reply (AA chosen for the purpose) whose six PI hex digits are the same as its hex digits k..k+5 (k = 0, 1, 2); None if there is none"""
    def f(aa):
        v = df11(aa, ca, code)
        return (v & 0xFFFFFF) ^ ((v >> (56 - 4 * (k + 6))) & 0xFFFFFF)
    aa = affine_solve(f, 24)
    return None if aa is None else (aa, df11(aa, ca, code))


def commb_ap_repeats(df, mb, head27, k):
    """a Comm-B reply (address chosen for the purpose) whose six AP hex digits are the same as its hex digits k..k+5 (8 <= k <= 16: inside MB)"""
    v0 = commb(df, 0, mb, head27)
    target = (v0 >> (112 - 4 * (k + 6))) & 0xFFFFFF
    addr = (v0 & 0xFFFFFF) ^ target
    return addr, commb(df, addr, mb, head27)


def raw_ap_repeats(df, body, nbits, k):
    """an AP-format reply (address chosen for the purpose) whose six AP hex digits are the same as its hex digits k..k+5 of the data part"""
    v0 = raw(df, body, nbits, 0)
    k = k % (nbits // 4 - 11)
    target = (v0 >> (nbits - 4 * (k + 6))) & 0xFFFFFF
    return raw(df, body, nbits, (v0 & 0xFFFFFF) ^ target)
