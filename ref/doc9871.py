"""ICAO Doc 9871 Comm-B register layouts as data (MB bits numbered 1..56, MSB first).

Row: (register, decoder name, index in returned tuple or None, status bit or None, sign bit or None, first, last, LSB, offset, kind)
kind: 'u' unsigned, 's' two's complement with the separate sign bit as MSB, 'a' two's complement angle wrapped to [0,360).
A decoder with status None reports its value unconditionally.
"""
FIELDS = [
    ("40", "selalt40mcp", None, 1, None, 2, 13, 16, 0, "u"),
    ("40", "selalt40fms", None, 14, None, 15, 26, 16, 0, "u"),
    ("40", "p40baro", None, 27, None, 28, 39, 0.1, 800, "u"),
    ("44", "wind44", 0, 5, None, 6, 14, 1, 0, "u"),
    ("44", "wind44", 1, 5, None, 15, 23, 180 / 256, 0, "u"),
    ("44", "temp44", 0, None, 24, 25, 34, 0.25, 0, "s"),
    ("44", "temp44", 1, None, 24, 25, 34, 0.125, 0, "s"),
    ("44", "p44", None, 35, None, 36, 46, 1, 0, "u"),
    ("44", "turb44", None, 47, None, 48, 49, 1, 0, "u"),
    ("44", "hum44", None, 50, None, 51, 56, 100 / 64, 0, "u"),
    ("45", "turb45", None, 1, None, 2, 3, 1, 0, "u"),
    ("45", "ws45", None, 4, None, 5, 6, 1, 0, "u"),
    ("45", "mb45", None, 7, None, 8, 9, 1, 0, "u"),
    ("45", "ic45", None, 10, None, 11, 12, 1, 0, "u"),
    ("45", "wv45", None, 13, None, 14, 15, 1, 0, "u"),
    ("45", "temp45", None, None, 17, 18, 26, 0.25, 0, "s"),
    ("45", "p45", None, 27, None, 28, 38, 1, 0, "u"),
    ("45", "rh45", None, 39, None, 40, 51, 16, 0, "u"),
    ("50", "roll50", None, 1, 2, 3, 11, 45 / 256, 0, "s"),
    ("50", "trk50", None, 12, 13, 14, 23, 90 / 512, 0, "a"),
    ("50", "gs50", None, 24, None, 25, 34, 2, 0, "u"),
    ("50", "rtrk50", None, 35, 36, 37, 45, 8 / 256, 0, "s"),
    ("50", "tas50", None, 46, None, 47, 56, 2, 0, "u"),
    ("53", "hdg53", None, 1, 2, 3, 12, 90 / 512, 0, "a"),
    ("53", "ias53", None, 13, None, 14, 23, 1, 0, "u"),
    ("53", "mach53", None, 24, None, 25, 33, 0.008, 0, "u"),
    ("53", "tas53", None, 34, None, 35, 46, 0.5, 0, "u"),
    ("53", "vr53", None, 47, 48, 49, 56, 64, 0, "s"),
    ("60", "hdg60", None, 1, 2, 3, 12, 90 / 512, 0, "a"),
    ("60", "ias60", None, 13, None, 14, 23, 1, 0, "u"),
    ("60", "mach60", None, 24, None, 25, 34, 2.048 / 512, 0, "u"),
    ("60", "vr60baro", None, 35, 36, 37, 45, 32, 0, "s"),
    ("60", "vr60ins", None, 46, 47, 48, 56, 32, 0, "s"),
    ("10", "ovc10", None, None, None, 15, 15, 1, 0, "u"),
]
ALIASES = {"alt40mcp": "selalt40mcp", "alt40fms": "selalt40fms"}
CAP17 = ["05", "06", "07", "08", "09", "0A", "20", "21", "40", "41", "42", "43", "44", "45", "48",
         "50", "51", "52", "53", "54", "55", "56", "5F", "60"]


def expected(row, raw, status, sign):
    """Engineering value of a field, or None when its status bit is clear."""
    _, _, _, sb, sg, first, last, lsb, off, kind = row
    if sb is not None and not status:
        return None
    n = last - first + 1
    v = raw
    if kind in ("s", "a") and sign:
        v = raw - (1 << n)
    val = v * lsb + off
    if kind == "a":
        val %= 360.0
    return val


def place(mb, first, last, value):
    """Write value into MB bits first..last (1-based, inclusive) of a 56-bit int."""
    n = last - first + 1
    shift = 56 - last
    mask = ((1 << n) - 1) << shift
    return (mb & ~mask) | ((value & ((1 << n) - 1)) << shift)


def getbits(mb, first, last):
    return (mb >> (56 - last)) & ((1 << (last - first + 1)) - 1)
