"""Mode S CRC-24 reference, written from Annex 10 Vol IV 3.1.2.3.3 as a bit-serial
polynomial division over Python integers.  G(x) = 0x1FFF409 (degree 24)."""
GEN = 0x1FFF409


def remainder(value, nbits):
    """M(x) mod G(x) for the nbits-bit frame M (parity field included)."""
    for i in range(nbits - 1, 23, -1):
        if (value >> i) & 1:
            value ^= GEN << (i - 24)
    return value & 0xFFFFFF


def parity(data, ndata):
    """Parity of the ndata data bits (frame without its last 24 bits)."""
    return remainder(data << 24, ndata + 24)


def downlink_frame(data, ndata, overlay=0):
    """data bits followed by parity XOR overlay (address for AP, (CL,IC) code for DF11 PI, 0 for DF17/18)."""
    return (data << 24) | (parity(data, ndata) ^ (overlay & 0xFFFFFF))


def uplink_modified_address(addr):
    """Annex 10 3.1.2.3.3.2: high-order 24 bits of G(x)*A(x) (carry-less product)."""
    prod = 0
    for i in range(24):
        if (addr >> i) & 1:
            prod ^= GEN << i
    return (prod >> 24) & 0xFFFFFF


def uplink_frame(data, ndata, addr):
    return (data << 24) | (parity(data, ndata) ^ uplink_modified_address(addr))
