"""Mode C / Mode S altitude and identity code *encoders* (Annex 10 Vol IV 3.1.1.7.12, 3.1.2.6.5.4).

13-bit field order (AC and ID):  C1 A1 C2 A2 C4 A4 M|X B1 Q|D1 B2 D2 B4 D4.
"""
ORDER13 = ["C1", "A1", "C2", "A2", "C4", "A4", "M", "B1", "Q", "B2", "D2", "B4", "D4"]
_C100 = {1: (0, 0, 1), 2: (0, 1, 1), 3: (0, 1, 0), 4: (1, 1, 0), 5: (1, 0, 0)}  # (C1, C2, C4) for the 100-ft step


def gillham_encode(alt_ft):
    """Altitude (multiple of 100 ft, -1200..126700) -> dict of pulses, M=Q=0."""
    if alt_ft % 100 or not -1200 <= alt_ft <= 126700:
        raise ValueError(alt_ft)
    q = (alt_ft + 1300) // 100 - 1
    n500, m = q // 5, q % 5 + 1
    if n500 % 2:
        m = 6 - m
    g = n500 ^ (n500 >> 1)  # 8-bit Gray code: D2 D4 A1 A2 A4 B1 B2 B4 (MSB first)
    names = ["D2", "D4", "A1", "A2", "A4", "B1", "B2", "B4"]
    p = {n: (g >> (7 - k)) & 1 for k, n in enumerate(names)}
    p["C1"], p["C2"], p["C4"] = _C100[m]
    p["M"] = 0
    p["Q"] = 0
    return p


def pack13(p):
    v = 0
    for n in ORDER13:
        v = (v << 1) | p[n]
    return v


GILLHAM_TABLE = {pack13(gillham_encode(a)): a for a in range(-1200, 126701, 100)}
assert len(GILLHAM_TABLE) == 1280


def altitude13(code):
    """Reference meaning of a 13-bit altitude code: ('none',) | ('exact', ft) | ('metric', exact_float_ft)."""
    if code == 0:
        return ("none",)
    m = (code >> 6) & 1
    q = (code >> 4) & 1
    if m:
        n = ((code >> 7) << 6) | (code & 0x3F)  # 12 bits without M
        return ("metric", n * 3.28084)
    if q:
        n = ((code >> 7) << 5) | (((code >> 5) & 1) << 4) | (code & 0xF)  # 11 bits without M and Q
        return ("exact", n * 25 - 1000)
    if code in GILLHAM_TABLE:
        return ("exact", GILLHAM_TABLE[code])
    return ("none",)


def widen12(field12):
    """ADS-B 12-bit altitude field -> 13-bit code with M=0 inserted after the 6th bit."""
    return ((field12 >> 6) << 7) | (field12 & 0x3F)


def squawk_encode(a, b, c, d, x=0):
    """Octal digits A B C D (+ X bit) -> 13-bit identity code C1 A1 C2 A2 C4 A4 X B1 D1 B2 D2 B4 D4."""
    bit = lambda v, k: (v >> k) & 1
    seq = [bit(c, 0), bit(a, 0), bit(c, 1), bit(a, 1), bit(c, 2), bit(a, 2), x,
           bit(b, 0), bit(d, 0), bit(b, 1), bit(d, 1), bit(b, 2), bit(d, 2)]
    v = 0
    for s in seq:
        v = (v << 1) | s
    return v
