"""C11 - Comm-B register fields decode to the encoded engineering values."""
import importlib

import pyModeS as pms
from ref import doc9871 as D
from ref import frames
from vlib import variants
from vlib import volume
from vlib import gen
from vlib.core import Leg, call

PROPERTY = "C11"
RULE = ("for each row of the Doc 9871 field table (BDS 1,0 1,7 4,0 4,4 4,5 5,0 5,3 6,0; 34 fields): every raw value (<= 2^12, exhaustive) x status x "
        "sign x k random + 2 boundary (all-zero / all-one / alternating) + 1 corner-mix (every other field of the register at 0/1/max-1/max) contents of all other MB bits and of header/address, DF20 and DF21, three letter cases; decoder called as pyModeS.commb.<name> "
        "(where exported), as pyModeS.decoder.bds.bdsXX.<name>, and through the deprecated aliases; oracle: None iff status clear, else "
        "(two's-complement | unsigned) x LSB + offset, angles mod 360; the result must be identical across contexts; cap17: all single bits and random "
        "24-bit masks. non-trivial = sign bit set, raw at 0/max, or status clear with raw != 0"
        ' Also: one context per field that is constant over the sweep, the frame passed as numpy.str_ and as a user str subclass, the list returned by cap17 edited by the caller before the next call, and more than 2^20 distinct frames decoded by one process (leg volume), the first calls of a freshly imported package made by four threads at once (leg first_use), one context with every other field of the register on a corner of its range, replies whose AP digits repeat digits inside MB, address 000000 and other boundary addresses, the decoder first handed damaged forms of the reply.')
ASSUMPTIONS = ["field table ref/doc9871.py written from ICAO Doc 9871 (2nd ed.) tables A-2-16..A-2-96", "float results compared to 1e-9 absolute"]

ROWS = D.FIELDS


def fn_pair(row):
    reg, name = row[0], row[1]
    mod = importlib.import_module("pyModeS.decoder.bds.bds" + reg)
    fns = [("bds%s.%s" % (reg, name), getattr(mod, name))]
    if hasattr(pms.commb, name):
        fns.append(("commb.%s" % name, getattr(pms.commb, name)))
    for al, tgt in D.ALIASES.items():
        if tgt == name:
            fns.append(("commb.%s" % al, getattr(pms.commb, al)))
    return fns


def corner_mix(reg, rng):
    """an MB in which every field of the register (value, status and sign bits) sits on a corner of its range: 0, 1, max-1 or max"""
    mb = rng.getrandbits(56)
    for r in ROWS:
        if r[0] != reg:
            continue
        _, _, _, sb, sg, first, last, _, _, _ = r
        n = last - first + 1
        mb = D.place(mb, first, last, rng.choice([0, 1, (1 << n) - 2, (1 << n) - 1]))
        if sb is not None:
            mb = D.place(mb, sb, sb, rng.getrandbits(1))
        if sg is not None:
            mb = D.place(mb, sg, sg, rng.getrandbits(1))
    return mb


def enum_fields(ctx):
    k = 2 if ctx.tier == "quick" else 16
    idx = 0
    for ri, row in enumerate(ROWS):
        n = row[6] - row[5] + 1
        for raw in range(1 << n):
            for status in ((0, 1) if row[3] is not None else (1,)):
                for sign in ((0, 1) if row[4] is not None else (0,)):
                    idx += 1
                    if ctx.mine(idx):
                        rng = ctx.rng("f", ri, raw, status, sign)
                        # contexts: random contents of every other MB bit, plus the boundary contents all-zero / all-one / alternating
                        fixed = [0, (1 << 56) - 1, 0xAAAAAAAAAAAAAA, 0x55555555555555]
                        mbs = [rng.getrandbits(56) for _ in range(k)] + [fixed[(raw + j) % 4] for j in range(2)] + [corner_mix(row[0], rng)]
                        # one context per field that is the same for every raw value: consecutive frames then differ in the field only
                        rrow = ctx.rng("row", ri)
                        same = [rrow.getrandbits(56), rrow.getrandbits(27), gen.addr24(rrow), 20, "U"]
                        yield {"row": ri, "raw": raw, "status": status, "sign": sign,
                               "ctx": [[m0, rng.getrandbits(27), gen.addr24(rng), rng.choice([20, 21]), rng.choice("ULM")] for m0 in mbs] + [same]}


def same(a, b):
    if a is None or b is None:
        return a is None and b is None
    if isinstance(a, (str, bool)) or isinstance(b, (str, bool)):
        return False
    try:
        return abs(a - b) <= 1e-9
    except Exception:
        return False


def chk_field(case, note):
    row = ROWS[case["row"]]
    reg, name, ti, sb, sg, first, last, lsb, off, kind = row
    exp = D.expected(row, case["raw"], case["status"], case["sign"])
    outs = []
    for mb0, head, addr, df, hc in case["ctx"]:
        mb = D.place(mb0, first, last, case["raw"])
        if sb is not None:
            mb = D.place(mb, sb, sb, case["status"])
        if sg is not None:
            mb = D.place(mb, sg, sg, case["sign"])
        v = frames.commb(df, addr, mb, head)
        if (mb0 ^ head) & 7 == 0 and hc != "M":   # the address chosen so that the six AP digits are the same as six digits inside MB
            v = frames.commb_ap_repeats(df, mb, head, 8 + (head >> 3) % 9)[1]
        msg = frames.tohex(v, 112, hc)
        for fname, fn in fn_pair(row):
            if (mb0 ^ head) & 24 == 0:
                variants.damaged_calls(fn, msg)   # the same reply cut short / too long was handed to this decoder before
            r = call(fn, msg)
            if r[0] != "ok":
                return "%s(%s) raised %r" % (fname, msg, r[1:])
            if (mb0 ^ case["raw"]) & 3 == 0:  # the same frame held in a str subclass (numpy.str_ from an array of frames, a user class)
                for tname, m2 in variants.str_variants(msg):
                    r2 = call(fn, m2)
                    if not variants.same_outcome(r, r2):
                        return "%s on a %s holding %s -> %r, on the plain str -> %r" % (fname, tname, msg, r2, r)
            v = r[1]
            if ti is not None:
                if not isinstance(v, tuple) or len(v) != 2:
                    return "%s(%s) = %r, expected a pair" % (fname, msg, v)
                v = v[ti]
            if not same(v, exp):
                return "%s(%s)%s = %r; Doc 9871: MB bits %d-%d raw %d, status %s, sign %s -> %r" % (
                    fname, msg, "" if ti is None else "[%d]" % ti, v, first, last, case["raw"],
                    case["status"] if sb else "-", case["sign"] if sg else "-", exp)
            outs.append(v)
    note.evals = len(outs)
    n = last - first + 1
    note.cls("BDS" + reg)
    note.nt(bool(case["sign"]) or case["raw"] in (0, (1 << n) - 1) or (sb is not None and not case["status"] and case["raw"] != 0),
            key=[case["row"], case["raw"], case["status"], case["sign"]])
    return None


def enum_cap17(ctx):
    idx = 0
    masks = [1 << (23 - i) for i in range(24)] + [0, (1 << 24) - 1]
    nrand = 400 if ctx.tier == "quick" else 20000
    for j in range(len(masks) + nrand):
        idx += 1
        if ctx.mine(idx):
            rng = ctx.rng("cap", j)
            m = masks[j] if j < len(masks) else rng.getrandbits(24)
            yield {"mask": m, "ctx_low": rng.getrandbits(32), "ctx_head": rng.getrandbits(27), "ctx_addr": gen.addr24(rng), "df": rng.choice([20, 21]),
                   "hc": rng.choice("ULM")}


def chk_cap17(case, note):
    mb = (case["mask"] << 32) | case["ctx_low"]
    msg = frames.tohex(frames.commb(case["df"], case["ctx_addr"], mb, case["ctx_head"]), 112, case["hc"])
    exp = ["BDS" + D.CAP17[i] for i in range(24) if (case["mask"] >> (23 - i)) & 1]
    from pyModeS.decoder.bds import bds17
    for fname, fn in (("bds17.cap17", bds17.cap17), ("commb.cap17", pms.commb.cap17)):
        r = call(fn, msg)
        if r[0] != "ok" or list(r[1]) != exp:
            return "%s(%s) = %r, capability bits %s mean %r" % (fname, msg, r, format(case["mask"], "024b"), exp)
        if isinstance(r[1], list):  # the caller owns the returned list: editing it must not change later answers
            r[1].append("BDSXX")
            del r[1][:1]
            r2 = call(fn, msg)
            if r2[0] != "ok" or list(r2[1]) != exp:
                return "%s(%s) = %r after the caller edited the list returned by the previous call (expected %r)" % (fname, msg, r2, exp)
    note.evals = 2
    note.nt(case["mask"] != 0)
    return None


_VOLF = {}


def vol_step(a, b, k):
    ri = (a >> 2) % len(ROWS)          # the two lowest bits of a select DF / letter case: siblings are the same payload in another frame
    row = ROWS[ri]
    reg, name, ti, sb, sg, first, last, lsb, off, kind = row
    if ri not in _VOLF:
        _VOLF[ri] = fn_pair(row)[0]
    fname, fn = _VOLF[ri]
    nbits = last - first + 1
    mb = b >> 8
    raw = (mb >> (56 - last)) & ((1 << nbits) - 1)
    status = (mb >> (56 - sb)) & 1 if sb is not None else 1
    sign = (mb >> (56 - sg)) & 1 if sg is not None else 0
    msg = "%02X%06X%014X%06X" % (0xA0 | ((a & 1) << 3) | ((a >> 8) & 7), (a >> 11) & 0xFFFFFF, mb, (a >> 35) & 0xFFFFFF)
    if a & 2:
        msg = msg.lower()
    r = call(fn, msg)
    if r[0] != "ok":
        return "%s(%s) raised %r" % (fname, msg, r[1:])
    v = r[1] if ti is None else (r[1][ti] if isinstance(r[1], tuple) and len(r[1]) == 2 else "not a pair: %r" % (r[1],))
    exp = D.expected(row, raw, status, sign)
    if not same(v, exp):
        return "%s(%s)%s = %r; Doc 9871: MB bits %d-%d raw %d, status %s, sign %s -> %r" % (
            fname, msg, "" if ti is None else "[%d]" % ti, v, first, last, raw, status if sb else "-", sign if sg else "-", exp)
    return None


# ---------------------------------------------------------------- first calls of a freshly imported package, four threads at once
def first_jobs(rng):
    jobs = []
    for _ in range(40):
        row = ROWS[rng.randrange(len(ROWS))]
        reg, name, ti, sb, sg, first, last, lsb, off, kind = row
        raw, status, sign = rng.getrandbits(last - first + 1), (rng.getrandbits(1) if sb is not None else 1), (rng.getrandbits(1) if sg is not None else 0)
        mb = D.place(rng.getrandbits(56), first, last, raw)
        if sb is not None:
            mb = D.place(mb, sb, sb, status)
        if sg is not None:
            mb = D.place(mb, sg, sg, sign)
        msg = frames.tohex(frames.commb(rng.choice([20, 21]), gen.addr24(rng), mb, rng.getrandbits(27)), 112, rng.choice("UL"))
        exp = D.expected(row, raw, status, sign)

        def judge(got, exp=exp, ti=ti):
            if got[0] != "ok":
                return "expected %r" % (exp,)
            v = got[1] if ti is None else (got[1][ti] if isinstance(got[1], tuple) and len(got[1]) == 2 else "?")
            return None if same(v, exp) else "Doc 9871 value %r" % (exp,)
        jobs.append(("decoder.bds.bds%s.%s" % (reg, name), (msg,), judge))
    return jobs


LEGS = [
    variants.first_use_leg(first_jobs),
    Leg("fields", chk_field, enum=enum_fields, exhaustive=True, doc="every raw value x status x sign of all 34 fields, random contexts"),
    Leg("cap17", chk_cap17, enum=enum_cap17, exhaustive=False, doc="GICB capability bits -> register list"),
    volume.leg(vol_step, 1100000, 2400000, "more than 2^20 distinct random frames decoded by one process, every field decoder in turn, each judged against the field table; revisits and four concurrent callers at the end"),
]
