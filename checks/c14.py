"""C14 - Decoders are total and type-guarded on well-formed frames."""
import contextlib
import io

import pyModeS as pms
from pyModeS.decoder import uplink as U
from ref import frames
from vlib import variants
from vlib import gen
from vlib.core import Leg, call

A = pms.adsb
PROPERTY = "C14"
RULE = ("cell table: DF 0..31 x (for DF17/18) type code 0..31 x the three bits after the type code (TC19/28/31 subtype, TC29 subtype + 1 bit), every cell with payloads "
        "{all-zero, all-one, random x k, DF11 parity overlays 0..255, CPR latitude fields decoding to 0/87/pole}; frames of the documented length (28 digits for adsb/commb/bds, 14 for surv/allcall, both for df/crc/icao/typecode/uplink, "
        "length-consistent for tell); every name in adsb.__all__, commb.__all__, surv, allcall, the common helpers, bds.infer, is50or60, tell and uplink.* is called "
        "with its extra arguments over their documented sets. Oracle: (a) the call returns or raises RuntimeError, nothing else; (b) guard table from the docstrings: "
        "outside the accepted DF/TC(/TC29 subtype) set -> RuntimeError, inside -> a value; (c) documented shape of the value; (d) dispatchers equal the variant chosen "
        "by type code alone (altitude, velocity, position_with_ref, position on pairs of cells). non-trivial = a (function, cell) outside the accepted set or a reserved "
        "payload inside it; distinct by cell and payload"
        " Also: valid Comm-B register contents incl. one field switched to 'not available' through commb.*, infer, is50or60 and tell (leg register_frames); for every unary decoder the keyword call msg= and the frame held in numpy.str_ / a str subclass; int / float / datetime time stamps and hex case in the pair dispatch; a libFuzzer campaign over the cell encoding in the thorough tier, payloads cut into segments that sit on corners together, TC19 payloads with both velocity fields, vertical rate and difference on corners, DF11 overlays 0-255, receivers half-way between surface longitude candidates in the pair dispatch.")
ASSUMPTIONS = ["guard table written from the docstrings / error texts; functions without a documented restriction are held to (a) and (c) only",
               "TC29 subtypes 2-3 and TC28 subtype 2 (documented 'not implemented') may return or raise RuntimeError",
               "length-inconsistent frames (14 digits announcing a long DF and vice versa) are out of contract and not generated here"]

TC_POS = set(range(5, 19)) | {20, 21, 22}


def tcg(*sets):
    s = set()
    for x in sets:
        s |= set(x) if not isinstance(x, int) else {x}
    return lambda df, tc, st3: "ok" if df in (17, 18) and tc in s else "rt"


def tc29(which):
    def f(df, tc, st3):
        if df not in (17, 18) or tc != 29:
            return "rt"
        sub = st3 >> 1
        if sub >= 2:
            return "any"
        return "ok" if sub == which else "rt"
    return f


def is_num(v):
    return isinstance(v, (int, float)) and not isinstance(v, bool) or type(v).__module__ == "numpy"


def opt(p):
    return lambda v: v is None or p(v)


def tup(*ps):
    return lambda v: isinstance(v, tuple) and len(v) == len(ps) and all(p(x) for p, x in zip(ps, v))


is_str = lambda v: isinstance(v, str)
is_bool = lambda v: isinstance(v, bool)
is_int = lambda v: isinstance(v, int) and not isinstance(v, bool)
onum = opt(is_num)
ostr = opt(is_str)
obool = opt(is_bool)
anyv = lambda v: True

V4 = opt(tup(onum, onum, onum, is_str))
V6 = opt(tup(onum, onum, onum, is_str, is_str, ostr))

# name -> (callable getter, extra-args list, accept(df,tc,st3), shape predicate)
T = {}


def reg(name, accept, shape, *extra_sets):
    T[name] = (accept, shape, list(extra_sets) if extra_sets else [()])


reg("callsign", tcg(range(1, 5)), is_str)
reg("category", tcg(range(1, 5)), is_int)
reg("surface_velocity", tcg(range(5, 9)), tup(onum, onum, is_num, is_str))
reg("surface_velocity+source", tcg(range(5, 9)), tup(onum, onum, is_num, is_str, is_str, ostr))
reg("altitude05", tcg(range(9, 19), (20, 21, 22)), onum)
reg("airborne_velocity", tcg(19), V4)
reg("airborne_velocity+source", tcg(19), V6)
reg("altitude_diff", tcg(19), onum)
reg("nuc_v", tcg(19), tup(is_int, onum, onum))
reg("nac_v", tcg(19), tup(is_int, onum, onum))
reg("emergency_squawk", tcg(28), is_str)
reg("is_emergency", lambda df, tc, st3: "rt" if not (df in (17, 18) and tc == 28) else ("any" if st3 == 2 else "ok"), is_bool)
reg("emergency_state", lambda df, tc, st3: "any", is_int)
reg("df", lambda *a: "ok", is_int)
reg("icao", lambda *a: "ok", ostr)
reg("typecode", lambda *a: "ok", opt(is_int))
reg("oe_flag", lambda *a: "ok", is_int)
reg("altitude", tcg(TC_POS), onum)
reg("velocity", tcg(range(5, 9), 19), V4)
reg("velocity+source", tcg(range(5, 9), 19), V6)
reg("speed_heading", tcg(range(5, 9), 19), opt(tup(onum, onum)))
reg("position_with_ref", tcg(TC_POS), tup(is_num, is_num), (10.0, 20.0), (-89.9, -179.9), (0.0, 0.0), (87.0, 10.0), (-87.0, -170.0))
reg("airborne_position_with_ref", lambda *a: "any", tup(is_num, is_num), (10.0, 20.0))
reg("surface_position_with_ref", lambda *a: "any", tup(is_num, is_num), (10.0, 20.0))
reg("version", tcg(31), is_int)
reg("nic_s", tcg(31), is_int)
reg("nic_a_c", tcg(31), tup(is_int, is_int))
reg("nuc_p", tcg(TC_POS), tup(is_int, onum, onum, onum))
reg("nic_v1", tcg(TC_POS), tup(is_int, onum, onum), (0,), (1,))
reg("nic_v2", tcg(TC_POS), tup(opt(is_int), onum), (0, 0), (0, 1), (1, 0), (1, 1))
reg("nic_b", tcg(range(9, 19)), is_int)
reg("nac_p", tcg(29, 31), tup(is_int, onum, onum))
reg("sil", tcg(29, 31), tup(onum, onum, is_str), (None,), (0,), (1,), (2,))
for _n, _s in (("selected_altitude", tup(onum, is_str)), ("selected_heading", onum), ("baro_pressure_setting", onum), ("autopilot", obool), ("vnav_mode", obool),
               ("altitude_hold_mode", obool), ("approach_mode", obool), ("lnav_mode", obool)):
    reg(_n, tc29(1), _s)
for _n, _s in (("target_altitude", tup(onum, is_str, is_str)), ("vertical_mode", opt(is_int)), ("horizontal_mode", opt(is_int)), ("target_angle", tup(onum, is_str, is_str)),
               ("tcas_ra", is_bool), ("emergency_status", is_int)):
    reg(_n, tc29(0), _s)
reg("tcas_operational", tcg(29), is_bool)

COMMB_SHAPES = {"cap17": lambda v: isinstance(v, list) and all(is_str(x) for x in v), "cs20": is_str, "ovc10": is_int, "wind44": tup(onum, onum), "temp44": tup(is_num, is_num)}
PAIRFNS = {"position", "airborne_position", "surface_position"}


def fn_of(name):
    base, _, flag = name.partition("+")
    f = getattr(A, base)
    return (lambda m, *a: f(m, True, *a)) if flag == "source" else f


def expect(name, r, exp, shape, msg, args=()):
    what = "%s(%s%s)" % (name, msg, "".join(", %r" % (a,) for a in args))
    if r[0] == "raise":
        if r[1] != "RuntimeError":
            return "%s raised %s: %s" % (what, r[1], r[2])
        if exp == "ok":
            return "%s raised RuntimeError on a frame inside its documented domain" % what
        return None
    if exp == "rt":
        return "%s returned %r on a frame outside its documented formats; expected RuntimeError" % (what, r[1])
    if not shape(r[1]):
        return "%s returned %r, which does not have the documented shape" % (what, r[1])
    return None


def segment_corners(rng, nbits=48):
    """a payload cut into 2-7 segments at random bit positions, each segment all-zero, all-one, equal to 1 or random: several fields of
    whatever layout applies sit on corners of their ranges at the same time"""
    cuts = sorted(rng.sample(range(1, nbits), rng.randint(1, 6))) + [nbits]
    v, prev = 0, 0
    for cpos in cuts:
        w = cpos - prev
        v = (v << w) | rng.choice([0, (1 << w) - 1, 1, rng.getrandbits(w)])
        prev = cpos
    return v


def cell_payloads(rng, k):
    return [0, (1 << 48) - 1] + [rng.getrandbits(48) for _ in range(k)] + [segment_corners(rng) for _ in range(max(2, k // 2))]


def enum_cells(ctx):
    k = 14 if ctx.tier == "quick" else 300
    idx = 0
    for df in range(32):
        for tc in (range(32) if df in (17, 18) else [None]):
            for st3 in (range(8) if tc is not None else [None]):
                rng = ctx.rng("cell", df, tc, st3)
                variants = [(low, None) for low in cell_payloads(rng, k)]
                if df == 11:  # parity overlay = (CL, IC) code: all-call replies with reserved CL 5-7 and corrupt overlays
                    variants += [(rng.getrandbits(48), ov) for ov in (0, 15, 16, 79, 80, 96, 111, 127, 128, 255, 0x800000)]
                if tc == 19:  # both velocity fields, the vertical rate and the altitude difference on corners of their ranges at once
                    for f1 in (0, 1, 2, 1023):
                        for f2 in (0, 1, 2, 1023):
                            for vr, dif in ((0, 0), (1, 1), (511, 127), (1, 0)):
                                variants.append(((rng.getrandbits(5) << 43) | (rng.getrandbits(1) << 42) | (f1 << 32) | (rng.getrandbits(1) << 31) | (f2 << 21) |
                                                 (rng.getrandbits(2) << 19) | (vr << 10) | (rng.getrandbits(3) << 7) | dif, None))
                if tc is not None and tc in TC_POS:  # CPR fields that decode to the special latitudes of NL (0, 87, poles) with either parity
                    for latf in (0, 65536, 32768, 131071, 1):
                        for f in (0, 1):
                            variants.append(((rng.getrandbits(12) << 36) | (f << 34) | (latf << 17) | rng.getrandbits(17), None))
                for low, addr in variants:
                    idx += 1
                    if ctx.mine(idx):
                        yield {"df": df, "tc": tc, "st3": st3, "low48": low, "ctx_addr": gen.addr24(rng) if addr is None else addr, "ctx_head": rng.getrandbits(27),
                               "hc": rng.choice("ULM")}


def build_long(c):
    if c["tc"] is not None:
        me = (c["tc"] << 51) | (c["st3"] << 48) | c["low48"]
        return frames.tohex(frames.df17(c["ctx_addr"], me, ca=c["ctx_head"] & 7, df=c["df"]), 112, c["hc"])
    mb = (c["low48"] << 8) | (c["ctx_head"] & 0xFF) if c["low48"] not in (0, (1 << 48) - 1) else (0 if c["low48"] == 0 else (1 << 56) - 1)
    return frames.tohex(frames.commb(c["df"], c["ctx_addr"], mb, c["ctx_head"] if c["low48"] else 0), 112, c["hc"])


def chk_cell(c, note):
    df, tc, st3 = c["df"], c["tc"], c["st3"]
    eff = min(df, 24)
    msg = build_long(c)
    etc, est = (tc, st3) if eff in (17, 18) else (None, None)
    n = 0
    outside = 0
    for name, (accept, shape, extras) in T.items():
        exp = accept(eff, etc, est) if etc is not None else accept(eff, -1, -1)
        for extra in extras:
            r = call(fn_of(name), msg, *extra)
            n += 1
            p = expect(name, r, exp, shape, msg, extra)
            if p:
                return p
        if not extras[0] and "+" not in name and (c["low48"] ^ len(name)) & 3 == 0:
            # other access paths to the same call: the documented keyword `msg=`, and the frame held in a str subclass
            f = getattr(A, name)
            r = call(f, msg)
            rk = call(f, msg=msg)
            if not variants.same_outcome(r, rk):
                return "%s(msg=%s) -> %r, positional -> %r" % (name, msg, rk, r)
            for tname, m2 in variants.str_variants(msg):
                r2 = call(f, m2)
                if not variants.same_outcome(r, r2):
                    return "%s on a %s holding %s -> %r, on the plain str -> %r" % (name, tname, msg, r2, r)
            n += 3
        outside += exp == "rt"
    # (d) routing by type code alone
    if etc is not None:
        if 5 <= etc <= 8:
            pairs = [("altitude", (), ("ok", 0)), ("velocity", (), call(A.surface_velocity, msg)), ("velocity", (True,), call(A.surface_velocity, msg, True)),
                     ("position_with_ref", (48.0, 11.0), call(A.surface_position_with_ref, msg, 48.0, 11.0))]
        elif etc in TC_POS:
            pairs = [("altitude", (), call(A.altitude05, msg)), ("position_with_ref", (48.0, 11.0), call(A.airborne_position_with_ref, msg, 48.0, 11.0))]
        elif etc == 19:
            pairs = [("velocity", (), call(A.airborne_velocity, msg)), ("velocity", (True,), call(A.airborne_velocity, msg, True))]
        else:
            pairs = []
        for nm, args, want in pairs:
            got = call(getattr(A, nm), msg, *args)
            n += 1
            if got != want:
                return "%s(%s%s) -> %r but the variant selected by type code %d gives %r" % (nm, msg, "".join(", %r" % a for a in args), got, etc, want)
    # Comm-B decoders, inference, pretty printer: total
    for nm in pms.commb.__all__:
        r = call(getattr(pms.commb, nm), msg)
        n += 1
        shape = COMMB_SHAPES.get(nm, is_bool if nm.startswith("is") else onum)
        p = expect("commb." + nm, r, "any_value", shape, msg)
        if p:
            return p
    from pyModeS.decoder.bds import bds53
    for nm in ("is53", "hdg53", "ias53", "mach53", "tas53", "vr53"):
        p = expect("bds53." + nm, call(getattr(bds53, nm), msg), "any_value", is_bool if nm == "is53" else onum, msg)
        n += 1
        if p:
            return p
    for mr in (False, True):
        p = expect("bds.infer", call(pms.bds.infer, msg, mr), "any_value", ostr, msg, (mr,))
        if p:
            return p
    p = expect("bds.is50or60", call(pms.bds.is50or60, msg, 250.0, 90.0, 30000.0), "any_value", ostr, msg, (250.0, 90.0, 30000.0))
    if p:
        return p
    frames_for_tell = [msg]
    # short-frame functions and length-agnostic helpers
    if df < 16:
        short = frames.tohex(frames.raw(df, c["low48"] & ((1 << 27) - 1), 56, c["ctx_addr"]), 56, c["hc"])
        frames_for_tell = [short]
        for nm, ok in (("fs", {4, 5}), ("dr", {4, 5}), ("um", {4, 5}), ("altitude", {4}), ("identity", {5})):
            r = call(getattr(pms.surv, nm), short)
            n += 1
            p = expect("surv." + nm, r, "ok" if df in ok else "rt", anyv, short)
            if p:
                return p
        for nm in ("icao", "interrogator", "capability"):
            r = call(getattr(pms.allcall, nm), short)
            n += 1
            p = expect("allcall." + nm, r, "ok" if df == 11 else "rt", anyv, short)
            if p:
                return p
        both = [short, msg]
    else:
        both = [msg]
    for m in both:
        for nm, shape in (("df", is_int), ("crc", is_int), ("icao", ostr), ("typecode", opt(is_int)), ("data", is_str), ("hex2bin", is_str)):
            p = expect("common." + nm, call(getattr(pms.common, nm), m), "any_value", shape, m)
            n += 1
            if p:
                return p
        d = min(int(m[:2], 16) >> 3, 24)
        for nm, ok in (("idcode", {5, 21}), ("altcode", {0, 4, 16, 20})):
            p = expect("common." + nm, call(getattr(pms.common, nm), m), "ok" if d in ok else "rt", anyv, m)
            n += 1
            if p:
                return p
        for nm, shape in (("uplink_icao", is_str), ("uf", is_int), ("bds", ostr), ("pr", opt(is_int)), ("ic", ostr), ("lockout", opt(lambda v: isinstance(v, (bool, int)))),
                          ("uplink_fields", lambda v: isinstance(v, dict))):
            p = expect("uplink." + nm, call(getattr(U, nm), m), "any_value", shape, m)
            n += 1
            if p:
                return p
    for m in frames_for_tell:
        buf = io.StringIO()
        with contextlib.redirect_stdout(buf):
            r = call(pms.tell, m)
        n += 1
        if r[0] != "ok":
            return "tell(%s) raised %s: %s" % (m, r[1], r[2])
        if r[1] is not None or m not in buf.getvalue():
            return "tell(%s) returned %r / printed %r" % (m, r[1], buf.getvalue()[:80])
    note.evals = n
    note.cls("DF%d" % eff + ("" if etc is None else "-TC%d" % etc))
    note.nt(outside > 0 or c["low48"] in (0, (1 << 48) - 1), key=[df, tc, st3, c["low48"]])
    return None


# ------------------------------------------------------------------ pair dispatch
def enum_pairs(ctx):
    idx = 0
    tcs = [None, 0, 4, 5, 8, 9, 18, 19, 20, 22, 23, 31]
    for tc0 in tcs:
        for tc1 in tcs:
            for oe in ((0, 1), (1, 0), (0, 0), (1, 1)):
                for j in range(8 if ctx.tier == "quick" else 120):
                    idx += 1
                    if ctx.mine(idx):
                        rng = ctx.rng("pair", tc0, tc1, oe, j)
                        yield {"tc0": tc0, "tc1": tc1, "oe": list(oe), "ctx_a": rng.getrandbits(51), "ctx_b": rng.getrandbits(51), "ctx_addr": gen.addr24(rng),
                               "t0": rng.choice([0, 1, 5]), "t1": rng.choice([0, 1, 5]), "ref": rng.choice([None, [52.0, 4.0], [-33.0, 151.0]]),
                               "stamps": rng.choice(["int", "int", "float", "datetime", "numpy"]), "hc": rng.choice("ULM")}


def chk_pair(c, note):
    def mk(tc, oe, low):
        if tc is None:
            return frames.tohex(frames.commb(20, c["ctx_addr"], low, 0), 112, c.get("hc", "U"))
        me = (tc << 51) | (low & ~(1 << 34)) | (oe << 34)
        return frames.tohex(frames.df17(c["ctx_addr"], me), 112, c.get("hc", "U"))
    m0, m1 = mk(c["tc0"], c["oe"][0], c["ctx_a"]), mk(c["tc1"], c["oe"][1], c["ctx_b"])
    ref = tuple(c["ref"]) if c["ref"] else ()
    if c.get("stamps") == "datetime":  # the signature documents int | datetime time stamps
        import datetime
        c = dict(c, t0=datetime.datetime(2024, 1, 1) + datetime.timedelta(seconds=c["t0"]), t1=datetime.datetime(2024, 1, 1) + datetime.timedelta(seconds=c["t1"]))
    elif c.get("stamps") == "float":
        c = dict(c, t0=c["t0"] + 0.25, t1=c["t1"] + 0.25)
    elif c.get("stamps") == "numpy":
        import numpy as np
        c = dict(c, t0=np.int64(c["t0"]), t1=np.int64(c["t1"]))
    got = call(A.position, m0, m1, c["t0"], c["t1"], *ref)
    t0, t1 = c["tc0"], c["tc1"]
    surf = t0 is not None and t1 is not None and 5 <= t0 <= 8 and 5 <= t1 <= 8
    air = t0 is not None and t1 is not None and ((9 <= t0 <= 18 and 9 <= t1 <= 18) or (20 <= t0 <= 22 and 20 <= t1 <= 22))
    if got[0] == "raise" and got[1] != "RuntimeError":
        return "position(%s, %s, %r, %r%s) raised %s: %s" % (m0, m1, c["t0"], c["t1"], "".join(", %r" % x for x in ref), got[1], got[2])
    if surf and ref:
        want = call(A.surface_position, m0, m1, c["t0"], c["t1"], *ref)
        if want[0] == "ok" and want[1] is not None and c["ctx_a"] & 3 == 0:
            from checks import cprcommon as cg_
            for lr in cg_.tie_longitudes(want[1][1]):   # a receiver half-way between two longitude candidates: any candidate, never another exception
                rt = call(A.position, m0, m1, c["t0"], c["t1"], ref[0], lr)
                if rt[0] == "raise" and rt[1] != "RuntimeError":
                    return "position(%s, %s, %r, %r, %r, %r) raised %s: %s" % (m0, m1, c["t0"], c["t1"], ref[0], lr, rt[1], rt[2])
    elif surf:
        want = ("raise", "RuntimeError")
    elif air:
        want = call(A.airborne_position, m0, m1, c["t0"], c["t1"])
    else:
        want = ("raise", "RuntimeError")
    if want[0] == "raise":
        if want[1] != "RuntimeError":
            return "%s_position(%s, %s, ...) raised %s: %s" % ("surface" if surf else "airborne", m0, m1, want[1], want[2])
        if got[0] != "raise":
            return "position(%s, %s, %r, %r%s) returned %r; expected RuntimeError (type codes %r/%r, parities %r)" % (
                m0, m1, c["t0"], c["t1"], "".join(", %r" % x for x in ref), got[1], t0, t1, c["oe"])
    elif got != want:
        return "position(%s, %s, ...) -> %r but the variant selected by the type codes %r/%r gives %r" % (m0, m1, got, t0, t1, want)
    if got[0] == "ok" and not (got[1] is None or tup(is_num, is_num)(got[1])):
        return "position(%s, %s, ...) returned %r: expected None or (lat, lon)" % (m0, m1, got[1])
    note.nt(not (surf or air) or c["oe"][0] == c["oe"][1], key=[t0, t1, c["oe"], c["ctx_a"] & 0xFFFF])
    return None


# ------------------------------------------------------------------ valid register contents (random payloads almost never reach the per-register branches)
def s_register():
    from hypothesis import strategies as st
    from checks import c12

    @st.composite
    def build(draw):
        c = draw(c12.s_valid())
        if draw(gen_bool()):  # clear one status bit together with its field: "not available" inside an otherwise valid register
            from ref import registers as R
            from ref import doc9871 as D
            rules = R.STATUS.get(c["reg"])
            if rules:
                stb, sg, first, last = rules[draw(st.integers(0, len(rules) - 1))]
                mb = D.place(D.place(c["mb"], stb, stb, 0), first, last, 0)
                if sg:
                    mb = D.place(mb, sg, sg, 0)
                if mb:
                    c["mb"] = mb
        return {"msg": c12.mkmsg(c)}
    return build()


def gen_bool():
    from hypothesis import strategies as st
    return st.booleans()


def chk_register(case, note):
    msg = case["msg"]
    n = 0
    for nm in pms.commb.__all__:
        shape = COMMB_SHAPES.get(nm, is_bool if nm.startswith("is") else onum)
        p = expect("commb." + nm, call(getattr(pms.commb, nm), msg), "any_value", shape, msg)
        n += 1
        if p:
            return p
    for mr in (False, True):
        p = expect("bds.infer", call(pms.bds.infer, msg, mr), "any_value", ostr, msg, (mr,))
        if p:
            return p
    p = expect("bds.is50or60", call(pms.bds.is50or60, msg, 250.0, 90.0, 30000.0), "any_value", ostr, msg, (250.0, 90.0, 30000.0))
    if p:
        return p
    buf = io.StringIO()
    with contextlib.redirect_stdout(buf):
        r = call(pms.tell, msg)
    if r[0] != "ok":
        return "tell(%s) raised %s: %s" % (msg, r[1], r[2])
    if r[1] is not None or msg not in buf.getvalue():
        return "tell(%s) returned %r / printed %r" % (msg, r[1], buf.getvalue()[:80])
    note.evals = n + 4
    note.cls("infer:" + str(pms.bds.infer(msg, True)))
    note.nt(True)
    return None


# ------------------------------------------------------------------ coverage-guided campaign (thorough tier)
def fuzz_decode(fdp):
    df = fdp.ConsumeIntInRange(0, 31)
    tc = fdp.ConsumeIntInRange(0, 31) if df in (17, 18) else None
    st3 = fdp.ConsumeIntInRange(0, 7) if tc is not None else None
    return {"df": df, "tc": tc, "st3": st3, "low48": fdp.ConsumeIntInRange(0, (1 << 48) - 1), "ctx_addr": fdp.ConsumeIntInRange(0, (1 << 24) - 1),
            "ctx_head": fdp.ConsumeIntInRange(0, (1 << 27) - 1), "hc": "ULM"[fdp.ConsumeIntInRange(0, 2)]}


fuzz_check = chk_cell


def enum_atheris(ctx):
    from vlib import fuzzleg
    yield from fuzzleg.campaign("c14", ctx, runs_quick=0, runs_thorough=60000, shards=4, max_len=24)


def chk_atheris(case, note):
    from vlib import fuzzleg
    return fuzzleg.judge(case, note, chk_cell)


LEGS = [
    Leg("atheris_cells", chk_atheris, enum=enum_atheris, shards_quick=1, shards_thorough=4, doc="libFuzzer campaign over the cell encoding with the cell oracle inside the target (thorough tier only)"),
    Leg("register_frames", chk_register, strategy=s_register, quick=6000, thorough=200000, doc="valid Comm-B register contents (C12 generator), also with one field switched to 'not available': commb.*, infer, is50or60, tell are total"),
    Leg("cells", chk_cell, enum=enum_cells, exhaustive=True, doc="DF x TC x 3-bit subtype cell table x payloads x every public function"),
    Leg("pair_dispatch", chk_pair, enum=enum_pairs, exhaustive=False, doc="position() routes by the two type codes alone; same parity / mixed classes -> RuntimeError"),
]
