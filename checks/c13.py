"""C13 - ADS-B status, intent and quality indicators (TC 19/28/29/31)."""
import pyModeS as pms
from ref import do260 as L
from ref import frames
from vlib import variants
from vlib import gen
from vlib.core import Leg, call

A = pms.adsb
PROPERTY = "C13"
RULE = ("TC28 / TC29 subtype 0 and 1 / TC31 / TC19 messages built from DO-260A/B layout tables; every field swept over all of its values "
        "(selected altitude 2048, baro 512, heading status x sign x 256, target altitude 1024, angle 512, all mode-bit combinations, NACp, SIL, "
        "version, supplements, 8 states x 8 subtypes) with all remaining ME bits, address, DF17/18 and letter case random; all position type "
        "codes 5..22 x NIC supplement bits x version {None,0,1,2} for the look-ups. Oracle: the encoded values, None exactly for 'no data' "
        "codes, selected heading = (256*sign+N)*180/256 mod 360, is_emergency per emergency state, categories per the DO-260 TC maps, "
        "monotone bounds. non-trivial = sign bit set, subtype-0 frames, 'no data' codes, supplement-resolved categories"
        ' Also: NIC supplements and the version passed as bool / numpy integers, one constant context per sweep, all non-zero emergency states, every Mode A code x every emergency state on TC28 subtype 1 (exhaustive), every state x subtype also with the codes 7500/7600/7700/0000/7777/1200/2000/7000, an equal-parity sibling frame of the same address decoded first, RCv only for GNSS-height type codes, the look-ups of a position message called after the operational status message of the same aircraft (any version / supplements) was decoded.'
        ' The selected heading is compared exactly.')
ASSUMPTIONS = ["every non-zero TC28 emergency state (incl. 6 'downed aircraft' and the reserved 7) counts as 'an emergency state other than none'",
               "the vertical containment radius RCv of nuc_p exists only for the GNSS-height type codes 20/21 (DO-260 NUCp table)",
               "layout tables in ref/do260.py written from DO-260A (TC29 subtype 0) and DO-260B (subtype 1, TC28, TC31)",
               "label strings (sources, Heading/Track) are only required to be a function of, and distinct for distinct values of, their field",
               "TC28 subtypes 2-7, TC29 subtypes 2-3, target altitude codes > 1010 and angles > 359 are unconstrained",
               "NIC of TC7/TC8 under version 1 and of invalid supplement combinations is not asserted, only that a tuple is returned",
               "metre/probability values of the bounds are not asserted, only None-ness for category 0 and monotonicity"]


def mk(me, rng):
    m = frames.tohex(frames.df17(gen.addr24(rng), me, ca=rng.getrandbits(3), df=rng.choice([17, 18])), 112, rng.choice("ULM"))
    if rng.getrandbits(2) == 0:
        variants.prelude(pms, m)   # helpers on the same string, and other message types of the same aircraft, decoded first
    return m


def is_rt(r):
    return r[0] == "raise" and r[1] == "RuntimeError"


def expect(fn, msg, exp, what, cmp=None):
    r = call(fn, msg)
    if r[0] != "ok":
        return "%s(%s) raised %r; encoded %s" % (fn.__name__, msg, r[1:], what)
    ok = cmp(r[1], exp) if cmp else r[1] == exp and type(r[1]) == type(exp) or (r[1] == exp and not isinstance(exp, bool) and not isinstance(r[1], bool))
    if not ok:
        return "%s(%s) = %r, expected %r (%s)" % (fn.__name__, msg, r[1], exp, what)
    return None


def feq(a, b):
    if a is None or b is None:
        return a is None and b is None
    return not isinstance(a, (str, bool)) and abs(a - b) <= 1e-9


# ----------------------------------------------------------------------------- TC29 subtype 1
V2_SWEEPS = [("alt", 2048), ("baro", 512), ("hdg", 256), ("nacp", 16), ("sil", 4), ("modes", 256)]
V2_ONLY = ["selected_altitude", "selected_heading", "baro_pressure_setting", "autopilot", "vnav_mode", "altitude_hold_mode", "approach_mode", "lnav_mode"]
V1_ONLY = ["target_altitude", "vertical_mode", "horizontal_mode", "target_angle", "tcas_ra", "emergency_status"]


def enum_v2(ctx):
    k = 4 if ctx.tier == "quick" else 40
    idx = 0
    for name, top in V2_SWEEPS:
        for val in range(top):
            for extra in range(4 if name == "hdg" else 1):
                for j in range(k + 1):
                    idx += 1
                    if ctx.mine(idx):
                        # j == k: one context for the whole sweep, so that consecutive frames differ in the swept field only
                        yield {"sweep": name, "val": val, "extra": extra, "ctx_seed": (ctx.rng("v2", name, val, extra, j) if j < k else ctx.rng("v2-fixed", name)).getrandbits(48)}


def chk_v2(c, note):
    import random
    rng = random.Random(c["ctx_seed"])
    fixed = {"tc": 29, "subtype": 1}
    if c["sweep"] == "modes":
        for i, n in enumerate(["mode_status", "ap", "vnav", "althold", "adsr", "app", "tcas", "lnav"]):
            fixed[n] = (c["val"] >> i) & 1
    elif c["sweep"] == "hdg":
        fixed.update(hdg=c["val"], hdg_status=c["extra"] & 1, hdg_sign=c["extra"] >> 1)
    else:
        fixed[c["sweep"]] = c["val"]
    me, f = L.pack(L.TC29_V2, fixed, rng)
    msg = mk(me, rng)
    exp_alt = (None, "N/A") if f["alt"] == 0 else ((f["alt"] - 1) * 32, "MCP/FCU" if f["alt_src"] == 0 else "FMS")
    r = call(A.selected_altitude, msg)
    if r[0] != "ok" or not isinstance(r[1], tuple) or len(r[1]) != 2 or not feq(r[1][0], exp_alt[0]):
        return "selected_altitude(%s) = %r, encoded %r" % (msg, r, exp_alt)
    if f["alt"] and r[1][1] != exp_alt[1]:
        return "selected_altitude(%s) = %r, encoded source %r" % (msg, r, exp_alt[1])
    p = expect(A.baro_pressure_setting, msg, None if f["baro"] == 0 else 800 + (f["baro"] - 1) * 0.8, "baro field %d" % f["baro"], feq)
    if p:
        return p
    eh = L.selected_heading(f["hdg_status"], f["hdg_sign"], f["hdg"])
    p = expect(A.selected_heading, msg, eh, "status %d sign %d magnitude %d" % (f["hdg_status"], f["hdg_sign"], f["hdg"]),
               feq)   # the encoded heading itself, in [0, 360): 360.0 for an encoded 0 is not the value in the frame
    if p:
        return p
    for fn, bit in ((A.autopilot, "ap"), (A.vnav_mode, "vnav"), (A.altitude_hold_mode, "althold"), (A.approach_mode, "app"), (A.lnav_mode, "lnav")):
        e = None if not f["mode_status"] else bool(f[bit])
        r = call(fn, msg)
        if r[0] != "ok" or not (r[1] is e or (e is not None and r[1] == e and isinstance(r[1], (bool, int)))):
            return "%s(%s) = %r, encoded status %d bit %d" % (fn.__name__, msg, r, f["mode_status"], f[bit])
    r = call(A.tcas_operational, msg)
    if r[0] != "ok" or r[1] is None or bool(r[1]) != bool(f["tcas"]):
        return "tcas_operational(%s) = %r, encoded bit %d" % (msg, r, f["tcas"])
    r = call(A.nac_p, msg)
    if r[0] != "ok" or not isinstance(r[1], tuple) or len(r[1]) != 3 or r[1][0] != f["nacp"]:
        return "nac_p(%s) = %r, encoded NACp %d" % (msg, r, f["nacp"])
    p = chk_sil(msg, f["sil"], f["sil_sup"])
    if p:
        return p
    for name in V1_ONLY:
        r = call(getattr(A, name), msg)
        if not is_rt(r):
            return "%s(%s) on a TC29 subtype-1 message -> %r, expected RuntimeError" % (name, msg, r)
    note.evals = 20
    note.cls("v2-" + c["sweep"])
    note.nt(f["hdg_sign"] == 1 or f["alt"] == 0 or f["baro"] == 0 or not f["hdg_status"] or not f["mode_status"], key=[c["sweep"], c["val"], c["extra"], c["ctx_seed"]])
    return None


SIL_SEEN = {}


def chk_sil(msg, silv, sup):
    for ver in (None, 0, 1, 2):
        r = call(A.sil, msg, ver)
        if r[0] != "ok" or not isinstance(r[1], tuple) or len(r[1]) != 3:
            return "sil(%s, %r) -> %r, expected a 3-tuple" % (msg, ver, r)
        pe, pv, base = r[1]
        if (pe is None) != (silv == 0):
            return "sil(%s, %r) = %r, encoded SIL %d" % (msg, ver, r[1], silv)
        ebase = ("hour" if sup == 0 else "sample") if ver == 2 else "unknown"
        if base != ebase:
            return "sil(%s, %r) = %r, encoded SIL supplement %d -> %r" % (msg, ver, r[1], sup, ebase)
        if ver is not None:  # a version number read from an array or a table column is a numpy integer
            import numpy as np
            for conv in (np.int64, np.uint8):
                r2 = call(A.sil, msg, conv(ver))
                if r2 != r:
                    return "sil(%s, %s(%d)) = %r, with a plain int %r" % (msg, conv.__name__, ver, r2, r[1])
    return None


# ----------------------------------------------------------------------------- TC29 subtype 0
V1_SWEEPS = [("talt", 1024), ("angle", 512), ("small", 4 * 4 * 4 * 2), ("tail", 4 * 8 * 2), ("nacp", 16), ("sil", 4)]
LABELS = {}


def label_fn(kind, key, label):
    """labels must be a function of the field value and distinct for distinct values"""
    d = LABELS.setdefault(kind, {})
    if key in d and d[key] != label:
        return "%s label for value %r was %r, now %r" % (kind, key, d[key], label)
    for k2, l2 in d.items():
        if k2 != key and l2 == label:
            return "%s label %r used for both value %r and %r" % (kind, label, k2, key)
    d[key] = label
    return None


def enum_v1(ctx):
    k = 4 if ctx.tier == "quick" else 40
    idx = 0
    for name, top in V1_SWEEPS:
        for val in range(top):
            for j in range(k + 1):
                idx += 1
                if ctx.mine(idx):
                    yield {"sweep": name, "val": val, "ctx_seed": (ctx.rng("v1", name, val, j) if j < k else ctx.rng("v1-fixed", name)).getrandbits(48)}


def chk_v1(c, note):
    import random
    rng = random.Random(c["ctx_seed"])
    fixed = {"tc": 29, "subtype": 0}
    v = c["val"]
    if c["sweep"] == "small":
        fixed.update(vsrc=v & 3, vmode=(v >> 2) & 3, hsrc=(v >> 4) & 3, alt_type=(v >> 6) & 1)
    elif c["sweep"] == "tail":
        fixed.update(hmode=v & 3, emerg=(v >> 2) & 7, angle_ind=(v >> 5) & 1)
    else:
        fixed[c["sweep"]] = v
    if c["sweep"] in ("talt",) and rng.random() < 0.8:
        fixed["vsrc"] = rng.randint(1, 3)
    if c["sweep"] in ("angle",) and rng.random() < 0.8:
        fixed["hsrc"] = rng.randint(1, 3)
    me, f = L.pack(L.TC29_V1, fixed, rng)
    msg = mk(me, rng)
    r = call(A.target_altitude, msg)
    if r[0] != "ok" or not isinstance(r[1], tuple) or len(r[1]) != 3:
        return "target_altitude(%s) -> %r, expected a 3-tuple" % (msg, r)
    if f["vsrc"] == 0:
        if r[1][0] is not None:
            return "target_altitude(%s) = %r, vertical data not available" % (msg, r[1])
    elif f["talt"] <= 1010:
        if not feq(r[1][0], -1000 + 100 * f["talt"]):
            return "target_altitude(%s) = %r, encoded %d ft" % (msg, r[1], -1000 + 100 * f["talt"])
    for fn, fld in ((A.vertical_mode, "vmode"), (A.horizontal_mode, "hmode")):
        p = expect(fn, msg, None if f[fld] == 0 else f[fld], "%s bits = %d" % (fld, f[fld]))
        if p:
            return p
    r = call(A.target_angle, msg)
    if r[0] != "ok" or not isinstance(r[1], tuple) or len(r[1]) != 3:
        return "target_angle(%s) -> %r, expected a 3-tuple" % (msg, r)
    if f["hsrc"] == 0:
        if r[1][0] is not None:
            return "target_angle(%s) = %r, horizontal data not available" % (msg, r[1])
    elif f["angle"] <= 359:
        if not feq(r[1][0], f["angle"]):
            return "target_angle(%s) = %r, encoded %d deg" % (msg, r[1], f["angle"])
    r = call(A.tcas_operational, msg)
    if r[0] != "ok" or r[1] is None or bool(r[1]) != (f["tcas_notop"] == 0):
        return "tcas_operational(%s) = %r, encoded 'not operational' bit %d" % (msg, r, f["tcas_notop"])
    r = call(A.tcas_ra, msg)
    if r[0] != "ok" or r[1] is None or bool(r[1]) != bool(f["ra"]):
        return "tcas_ra(%s) = %r, encoded bit %d" % (msg, r, f["ra"])
    p = expect(A.emergency_status, msg, f["emerg"], "emergency/priority %d" % f["emerg"])
    if p:
        return p
    r = call(A.nac_p, msg)
    if r[0] != "ok" or not isinstance(r[1], tuple) or len(r[1]) != 3 or r[1][0] != f["nacp"]:
        return "nac_p(%s) = %r, encoded NACp %d" % (msg, r, f["nacp"])
    for ver in (None, 0, 1):
        r = call(A.sil, msg, ver)
        if r[0] != "ok" or not isinstance(r[1], tuple) or len(r[1]) != 3 or (r[1][0] is None) != (f["sil"] == 0):
            return "sil(%s, %r) = %r, encoded SIL %d" % (msg, ver, r, f["sil"])
    for name in V2_ONLY:
        r = call(getattr(A, name), msg)
        if not is_rt(r):
            return "%s(%s) on a TC29 subtype-0 message -> %r, expected RuntimeError" % (name, msg, r)
    note.evals = 19
    note.cls("v1-" + c["sweep"])
    note.nt(True, key=[c["sweep"], c["val"], c["ctx_seed"]])
    return None


# ----------------------------------------------------------------------------- TC28, TC31, TC19
def enum_misc(ctx):
    k = 6 if ctx.tier == "quick" else 60
    idx = 0
    for kind, top in (("tc28", 64), ("tc31", 8 * 2 * 16 * 4 * 2 * 2), ("tc19", 8)):
        for val in range(top):
            for j in range(k):
                idx += 1
                if ctx.mine(idx):
                    yield {"kind": kind, "val": val, "ctx_seed": ctx.rng("m", kind, val, j).getrandbits(48)}
    # TC28 subtype 1: every Mode A code with every emergency state (4096 x 8)
    for code in range(4096):
        for state in range(8):
            idx += 1
            if ctx.mine(idx):
                yield {"kind": "tc28", "val": (state << 3) | 1, "squawk": "%04o" % code, "ctx_seed": ctx.rng("m28x", code, state).getrandbits(48)}
    # TC28: every state x subtype also with the Mode A codes that have a meaning of their own (7500 / 7600 / 7700 and a few ordinary ones)
    for val in range(64):
        for sq in ("7500", "7600", "7700", "0000", "7777", "1200", "2000", "7000"):
            idx += 1
            if ctx.mine(idx):
                yield {"kind": "tc28", "val": val, "squawk": sq, "ctx_seed": ctx.rng("m28", val, sq).getrandbits(48)}


def chk_misc(c, note):
    import random
    rng = random.Random(c["ctx_seed"])
    v = c["val"]
    if c["kind"] == "tc28":
        fixed28 = {"tc": 28, "subtype": v & 7, "state": v >> 3}
        if c.get("squawk"):
            from ref import gillham
            fixed28["idcode"] = gillham.squawk_encode(*[int(ch) for ch in c["squawk"]])
        me, f = L.pack(L.TC28, fixed28, rng)
        msg = mk(me, rng)
        st, sub = f["state"], f["subtype"]
        if c.get("squawk") and sub == 1:
            r = call(A.emergency_squawk, msg)
            if r != ("ok", c["squawk"]):
                return "emergency_squawk(%s) = %r, encoded Mode A code %s" % (msg, r, c["squawk"])
        r = call(A.emergency_state, msg)
        if sub != 2 and r != ("ok", st):
            return "emergency_state(%s) = %r, encoded state %d (subtype %d)" % (msg, r, st, sub)
        r = call(A.is_emergency, msg)
        if sub == 2:
            if not (is_rt(r) or r[0] == "ok"):
                return "is_emergency(%s) on subtype 2 -> %r" % (msg, r)
        elif r[0] != "ok" or not isinstance(r[1], (bool,)):
            return "is_emergency(%s) -> %r, expected a bool" % (msg, r)
        elif sub == 1 and st >= 1 and r[1] is not True:
            return "is_emergency(%s) = %r although emergency state %d is reported" % (msg, r[1], st)
        elif (sub == 0 or (sub == 1 and st == 0)) and r[1] is not False:
            return "is_emergency(%s) = %r although %s" % (msg, r[1], "subtype 0 (no information)" if sub == 0 else "state 0 (no emergency)")
        note.cls("tc28")
    elif c["kind"] == "tc31":
        fixed = {"tc": 31, "version": v & 7, "nic_a": (v >> 3) & 1, "nacp": (v >> 4) & 15, "sil": (v >> 8) & 3, "sil_sup": (v >> 10) & 1, "nic_c": (v >> 11) & 1}
        me, f = L.pack(L.TC31, fixed, rng)
        msg = mk(me, rng)
        for fn, e, w in ((A.version, f["version"], "version"), (A.nic_s, f["nic_a"], "NIC supplement bit 44"), (A.nic_a_c, (f["nic_a"], f["nic_c"]), "NIC-A/NIC-C")):
            p = expect(fn, msg, e, w)
            if p:
                return p
        r = call(A.nac_p, msg)
        if r[0] != "ok" or not isinstance(r[1], tuple) or len(r[1]) != 3 or r[1][0] != f["nacp"]:
            return "nac_p(%s) = %r, encoded NACp %d" % (msg, r, f["nacp"])
        p = chk_sil(msg, f["sil"], f["sil_sup"])
        if p:
            return p
        note.cls("tc31")
    else:
        me = (19 << 51) | (rng.getrandbits(5) << 46) | (v << 43) | rng.getrandbits(43)
        msg = mk(me, rng)
        for fn in (A.nuc_v, A.nac_v):
            r = call(fn, msg)
            if r[0] != "ok" or not isinstance(r[1], tuple) or len(r[1]) != 3 or r[1][0] != v:
                return "%s(%s) = %r, encoded category %d" % (fn.__name__, msg, r, v)
            if (r[1][1] is None) != (v == 0 or v > 4):
                return "%s(%s) = %r: bound must be None exactly for category 0 / reserved" % (fn.__name__, msg, r[1])
        note.cls("tc19")
    note.evals = 5
    note.nt(True, key=[c["kind"], c["val"], c["ctx_seed"]])
    return None


MONO = {}


def mono(kind, cat, bound):
    d = MONO.setdefault(kind, {})
    if bound is not None:
        for c2, b2 in d.items():
            if (c2 > cat and b2 > bound) or (c2 < cat and b2 < bound):
                return "%s: category %d -> %r but category %d -> %r (a higher category maps to a looser bound)" % (kind, cat, bound, c2, b2)
        d[cat] = bound
    return None


def chk_nacp_mono(t):
    return mono("nac_p EPU", t[0], t[1]) or mono("nac_p VEPU", t[0], t[2])


# ----------------------------------------------------------------------------- look-ups over TC x supplements
def enum_lookup(ctx):
    k = 40 if ctx.tier == "quick" else 600
    idx = 0
    for tc in range(5, 23):
        for j in range(k):
            idx += 1
            if ctx.mine(idx):
                yield {"tc": tc, "ctx_seed": ctx.rng("lk", tc, j).getrandbits(48)}


def chk_lookup(c, note):
    import random
    rng = random.Random(c["ctx_seed"])
    tc = c["tc"]
    nicb = rng.getrandbits(1)
    me = (tc << 51) | (rng.getrandbits(2) << 49) | (nicb << 48) | rng.getrandbits(48)
    msg = mk(me, rng)
    heard = rng.getrandbits(2)
    if heard:
        # the same aircraft's operational status message was decoded before (the usual order in a receiver: version and supplements first,
        # then the category of the position message) - possibly announcing other supplements than the ones passed explicitly below
        ome, _f = L.pack(L.TC31, {"tc": 31, "subtype": rng.choice([0, 0, 1]), "version": rng.choice([1, 1, 2, 0]), "nic_a": rng.choice([1, 1, 0])}, rng)
        omsg = frames.tohex(frames.df17(int(msg[2:8], 16), ome, ca=5, df=17), 112, rng.choice("UL"))
        for fn in (A.version, A.nic_s, A.nic_a_c, A.nac_p, A.sil):
            call(fn, omsg)
        note.cls("after-operational-status-of-the-same-aircraft")
    if tc == 19:
        for nm, args in (("nuc_p", ()), ("nic_v1", (0,)), ("nic_v1", (1,)), ("nic_v2", (0, 0)), ("nic_v2", (1, 1)), ("nic_b", ())):
            r = call(getattr(A, nm), msg, *args)
            if not (is_rt(r) or (r[0] == "ok" and isinstance(r[1], (tuple, int)))):
                return "%s(%s%s) on a TC19 message -> %r; expected RuntimeError (not a position message)" % (nm, msg, "".join(", %r" % a for a in args), r)
        note.cls("lookup-tc19")
        note.nt(True, key=[tc, c["ctx_seed"]])
        return None
    r = call(A.nuc_p, msg)
    if r[0] != "ok" or not isinstance(r[1], tuple) or len(r[1]) != 4 or r[1][0] != L.TC_NUCP[tc]:
        return "nuc_p(%s) = %r, TC%d means NUCp %d" % (msg, r, tc, L.TC_NUCP[tc])
    if (r[1][1] is None) != (r[1][0] == 0):
        return "nuc_p(%s) = %r: HPL must be None exactly for NUCp 0" % (msg, r[1])
    if tc < 20 and r[1][3] is not None:
        return "nuc_p(%s) = %r: a vertical containment radius is reported for TC%d, which carries no GNSS height" % (msg, r[1], tc)
    if tc in (20, 21) and r[1][3] is None:
        return "nuc_p(%s) = %r: no vertical containment radius for GNSS-height TC%d" % (msg, r[1], tc)
    for nics in (0, 1):
        r = call(A.nic_v1, msg, nics)
        if r[0] != "ok" or not isinstance(r[1], tuple) or len(r[1]) != 3:
            return "nic_v1(%s, %d) -> %r, expected a 3-tuple" % (msg, nics, r)
        e = L.TC_NIC_FIXED.get(tc, L.NIC_V1_SUPP.get(tc, {}).get(nics))
        if e is not None and r[1][0] != e:
            return "nic_v1(%s, %d) = %r, TC%d with supplement %d means NIC %d" % (msg, nics, r[1], tc, nics, e)
    for nica in (0, 1):
        for nicbc in (0, 1):
            r = call(A.nic_v2, msg, nica, nicbc)
            if r[0] != "ok" or not isinstance(r[1], tuple) or len(r[1]) != 2:
                return "nic_v2(%s, %d, %d) -> %r, expected a pair" % (msg, nica, nicbc, r)
            e = L.TC_NIC_FIXED.get(tc) if tc not in (13,) else None
            if tc in L.NIC_V2_SUPP:
                e = L.NIC_V2_SUPP[tc].get((nica, nicbc))
            if tc >= 20:
                e = L.TC_NIC_FIXED[tc]
            if e is not None and (nica, nicbc) == (0, 0) and r[1][0] != e:
                return "nic_v2(%s, 0, 0) = %r, TC%d means NIC %d" % (msg, r[1], tc, e)
            if e is not None and tc in L.NIC_V2_SUPP and r[1][0] != e:
                return "nic_v2(%s, %d, %d) = %r, TC%d with these supplements means NIC %d" % (msg, nica, nicbc, r[1], tc, e)
    import numpy as np
    for a_, b_ in ((0, 0), (1, 0), (0, 1), (1, 1)):
        base = call(A.nic_v2, msg, a_, b_)
        for tname, conv in (("bool", bool), ("numpy.int64", np.int64), ("numpy.uint8", np.uint8), ("numpy.bool_", np.bool_)):
            r2 = call(A.nic_v2, msg, conv(a_), conv(b_))
            if r2 != base:
                return "nic_v2(%s, %s(%d), %s(%d)) -> %r, with plain ints -> %r" % (msg, tname, a_, tname, b_, r2, base)
        b1 = call(A.nic_v1, msg, a_)
        for tname, conv in (("bool", bool), ("numpy.int64", np.int64)):
            if call(A.nic_v1, msg, conv(a_)) != b1:
                return "nic_v1(%s, %s(%d)) -> %r, with a plain int -> %r" % (msg, tname, a_, call(A.nic_v1, msg, conv(a_)), b1)
    r = call(A.nic_b, msg)
    if 9 <= tc <= 18:
        if r != ("ok", nicb):
            return "nic_b(%s) = %r, encoded NIC supplement-B %d" % (msg, r, nicb)
    elif not is_rt(r):
        return "nic_b(%s) on TC%d -> %r, expected RuntimeError" % (msg, tc, r)
    note.evals = 9
    note.cls("lookup")
    note.nt(tc in (7, 8, 11, 13, 16), key=[tc, c["ctx_seed"]])
    return None

# ----------------------------------------------------------------------------- monotone bounds and label functions (self-contained cases)
def _mono(kind, pairs):
    """pairs: list of (category, bound); for c1 > c2 with both bounds given: bound(c1) <= bound(c2)."""
    for c1, b1 in pairs:
        for c2, b2 in pairs:
            if b1 is not None and b2 is not None and c1 is not None and c2 is not None and c1 > c2 and b1 > b2:
                return "%s: category %r -> %r but category %r -> %r (a higher category maps to a looser bound)" % (kind, c1, b1, c2, b2)
    return None


def _injective(kind, pairs):
    d = {}
    for k, lab in pairs:
        if k in d and d[k] != lab:
            return "%s: label for value %r is both %r and %r" % (kind, k, d[k], lab)
        d[k] = lab
    if len(set(d.values())) != len(d):
        return "%s: distinct values share a label: %r" % (kind, d)
    return None


def enum_mono(ctx):
    kinds = ["nac_p", "nuc_v", "nac_v", "sil", "nuc_p", "nic_v1", "nic_v2", "labels"]
    k = 12 if ctx.tier == "quick" else 200
    idx = 0
    for kind in kinds:
        for j in range(k):
            idx += 1
            if ctx.mine(idx):
                yield {"kind": kind, "ctx_seed": ctx.rng("mono", kind, j).getrandbits(48)}


def chk_mono(c, note):
    import random
    rng = random.Random(c["ctx_seed"])
    kind = c["kind"]
    note.cls("mono-" + kind)
    note.nt(True)
    if kind == "nac_p":
        out = []
        for cat in range(16):
            for lay, fixed in ((L.TC31, {"tc": 31, "nacp": cat}), (L.TC29_V2, {"tc": 29, "subtype": 1, "nacp": cat}), (L.TC29_V1, {"tc": 29, "subtype": 0, "nacp": cat})):
                t = A.nac_p(mk(L.pack(lay, fixed, rng)[0], rng))
                out.append(t)
                if (t[1] is None) != (cat == 0 or cat > 11):
                    return "nac_p: EPU %r for NACp %d (None expected exactly for 0 / reserved)" % (t[1], cat)
        return _mono("nac_p EPU", [(t[0], t[1]) for t in out]) or _mono("nac_p VEPU", [(t[0], t[2]) for t in out])
    if kind in ("nuc_v", "nac_v"):
        out = [getattr(A, kind)(mk((19 << 51) | (rng.getrandbits(5) << 46) | (v << 43) | rng.getrandbits(43), rng)) for v in range(8)]
        return _mono(kind + " horizontal", [(t[0], t[1]) for t in out]) or _mono(kind + " vertical", [(t[0], t[2]) for t in out])
    if kind == "sil":
        out = []
        for lev in range(4):
            for lay, fixed in ((L.TC31, {"tc": 31, "sil": lev}), (L.TC29_V2, {"tc": 29, "subtype": 1, "sil": lev})):
                t = A.sil(mk(L.pack(lay, fixed, rng)[0], rng), rng.choice([None, 0, 1, 2]))
                out.append((lev, t))
        return _mono("sil PE_RCu", [(l, t[0]) for l, t in out]) or _mono("sil PE_VPL", [(l, t[1]) for l, t in out])
    if kind in ("nuc_p", "nic_v1", "nic_v2"):
        out = []
        for tc in L.POSITION_TCS:
            msg = mk((tc << 51) | rng.getrandbits(51), rng)
            if kind == "nuc_p":
                t = A.nuc_p(msg)
                out.append((t[0], t[1], t[2]))
            elif kind == "nic_v1":
                for s in (0, 1):
                    t = A.nic_v1(msg, s)
                    out.append((t[0], t[1], t[2]))
            else:
                for a in (0, 1):
                    for b in (0, 1):
                        t = A.nic_v2(msg, a, b)
                        out.append((t[0], t[1], None))
        return _mono(kind + " first bound", [(t[0], t[1]) for t in out]) or _mono(kind + " second bound", [(t[0], t[2]) for t in out])
    # labels of TC29 subtype 0
    src, ref, typ, asrc = [], [], [], []
    for _ in range(40):
        me, f = L.pack(L.TC29_V1, {"tc": 29, "subtype": 0, "talt": rng.randint(0, 1010), "angle": rng.randint(0, 359)}, rng)
        msg = mk(me, rng)
        t = A.target_altitude(msg)
        if f["vsrc"]:
            src.append((f["vsrc"], t[1]))
            ref.append((f["alt_type"], t[2]))
        t = A.target_angle(msg)
        if f["hsrc"]:
            typ.append((f["angle_ind"], t[1]))
            asrc.append((f["hsrc"], t[2]))
    return (_injective("target altitude source", src) or _injective("altitude reference", ref) or
            _injective("angle type", typ) or _injective("angle source", asrc))


LEGS = [
    Leg("tc29_subtype1", chk_v2, enum=enum_v2, exhaustive=True, doc="every TC29 v2 field swept, others random"),
    Leg("tc29_subtype0", chk_v1, enum=enum_v1, exhaustive=True, doc="every TC29 v1 field swept, others random"),
    Leg("tc28_tc31_tc19", chk_misc, enum=enum_misc, exhaustive=True, doc="emergency state x subtype; version/NIC/NACp/SIL products; NACv"),
    Leg("monotone_labels", chk_mono, enum=enum_mono, doc="bounds monotone in the category; label strings a function of their field"),
    Leg("lookups", chk_lookup, enum=enum_lookup, exhaustive=True, doc="TC 5..22 x supplements x version for NUCp/NIC look-ups, monotone bounds"),
]
