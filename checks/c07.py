"""C07 - Altitude codes decode to the Annex 10 altitude, exhaustively."""
import pyModeS as pms
from ref import frames, gillham
from vlib import variants
from vlib import volume
from vlib import gen
from vlib.core import Leg, call

PROPERTY = "C07"
RULE = ("all 8192 13-bit codes through common.altitude (exhaustive), each code embedded in DF0/4/16/20 frames (altcode, surv.altitude) with "
        "k random contexts (every bit outside the AC field, address, hex case), all 4096 12-bit ADS-B fields x TC 9-18 / 20-22 (+ TC 5-8 -> 0) "
        "with random contexts; oracle: Q=1 -> 25N-1000, Q=0 -> inverse of a Gillham *encoder* over -1200..126700 ft (1280 codes) else None, "
        "M=1 -> |alt - 3.28084 N| < 1, zero -> None, GNSS height -> 3.28084 N; results must not depend on the context. "
        "non-trivial = Q=0 or M=1 codes and illegal Gillham patterns (distinct by code and carrier)"
        ' Also: the common helpers called on the same string before the judged decoder and every call made twice (call history), one constant context per carrier so that consecutive frames differ in the field only, 937 real airborne-position frames (leg corpus), more than 2^20 distinct frames in a row in one process (leg volume), the first altitude decodes of a freshly imported package made by four threads at once (leg first_use), frames whose AP digits repeat digits of the data part, the decoder first handed damaged forms of the frame, boundary addresses.')
ASSUMPTIONS = ["Gillham table produced by ref/gillham.py's encoder (Annex 10 reflected-binary 500 ft + 100 ft sub-code)",
               "metric altitudes are judged to < 1 ft because the decoder truncates the converted value"]


def judge(got, code, what):
    exp = gillham.altitude13(code)
    if got[0] != "ok":
        return "%s raised %r" % (what, got[1:])
    v = got[1]
    if exp[0] == "none":
        return None if v is None else "%s = %r, expected None (code %s)" % (what, v, format(code, "013b"))
    if v is None or isinstance(v, bool) or not isinstance(v, (int, float)):
        return "%s = %r, expected %r" % (what, v, exp[1])
    if exp[0] == "exact":
        return None if v == exp[1] else "%s = %r, Annex 10 altitude %r ft (code %s)" % (what, v, exp[1], format(code, "013b"))
    return None if abs(v - exp[1]) < 1 else "%s = %r, metric code means %.3f ft" % (what, v, exp[1])


def nontriv(code):
    return ((code >> 6) & 1) == 1 or ((code >> 4) & 1) == 0


def enum_code13(ctx):
    for code in range(8192):
        if ctx.mine(code):
            yield {"code": code}


def chk_code13(case, note):
    code = case["code"]
    note.nt(nontriv(code))
    note.cls(gillham.altitude13(code)[0], "M1" if (code >> 6) & 1 else ("Q1" if (code >> 4) & 1 else "Q0"))
    p = judge(call(pms.common.altitude, format(code, "013b")), code, "common.altitude(%s)" % format(code, "013b"))
    if p:
        return p
    for bad in (format(code, "013b")[:12], format(code, "013b") + "0"):
        r = call(pms.common.altitude, bad)
        if not (r[0] == "raise" and r[1] == "RuntimeError"):
            return "common.altitude(%r) (not 13 bits) -> %r, expected RuntimeError" % (bad, r)
    return None


def enum_carriers(ctx):
    k = 4 if ctx.tier == "quick" else 40
    idx = 0
    for code in range(8192):
        for df in (0, 4, 16, 20):
            idx += 1
            if not ctx.mine(idx):
                continue
            rng = ctx.rng("car", code, df)
            rdf = ctx.rng("car-fixed", df)  # one context shared by all codes of a format: consecutive frames differ in the altitude field (and parity) only
            yield {"code": code, "df": df, "ctx": [[rng.getrandbits(14), rng.getrandbits(56), gen.addr24(rng), rng.choice("ULM")] for _ in range(k)] +
                   [[rdf.getrandbits(14), rdf.getrandbits(56), gen.addr24(rdf), "U"]]}


def chk_carriers(case, note):
    code, df = case["code"], case["df"]
    n = 56 if df in (0, 4) else 112
    outs = []
    for head, tail, addr, hc in case["ctx"]:
        body = (head << 13) | code
        if n == 112:
            body = (body << 56) | tail
        v = frames.raw(df, body, n, addr)
        if (head ^ code) & 6 == 0 and hc != "M":   # the address chosen so that the AP digits are the same as six digits of the data part
            v = frames.raw_ap_repeats(df, body, n, head >> 3)
        msg = frames.tohex(v, n, hc)
        fns = [("common.altcode", pms.common.altcode)]
        if df == 4:
            fns.append(("surv.altitude", pms.surv.altitude))
        if (head ^ code) & 1:
            variants.prelude(pms, msg)  # a receiver checks parity / address of the same string first
        for name, fn in fns:
            if (head ^ code) & 8:
                variants.damaged_calls(fn, msg)
            r = call(fn, msg)
            if call(fn, msg) != r:
                return "%s(%s) gives %r and then %r when called twice" % (name, msg, r, call(fn, msg))
            p = judge(r, code, "%s(%s)" % (name, msg))
            if p:
                return p
            if (head ^ code) & 48 == 0:   # the same frame held in a str subclass (numpy.str_, a user class, one with its own __str__)
                for tname, m2 in variants.str_variants(msg):
                    r2 = call(fn, m2)
                    if not variants.same_outcome(r, r2):
                        return "%s on a %s holding %s -> %r, on the plain str -> %r" % (name, tname, msg, r2, r)
            outs.append(r[1])
    if len(set(map(repr, outs))) != 1:
        return "altitude of code %s depends on bits outside the field: %r" % (format(code, "013b"), outs)
    note.evals = len(outs)
    note.cls("DF%d" % df)
    note.nt(nontriv(code), key=[code, df])
    return None


def enum_adsb12(ctx):
    idx = 0
    for field in range(4096):
        for tc in list(range(9, 19)) + [20, 21, 22] + ([5, 8] if field % 64 == 0 else []):
            idx += 1
            if not ctx.mine(idx):
                continue
            rng = ctx.rng("adsb", field, tc)
            k = 3 if ctx.tier == "quick" else 30
            rtc = ctx.rng("adsb-fixed", tc)
            yield {"field": field, "tc": tc, "ctx": [[rng.getrandbits(3), rng.getrandbits(36), gen.addr24(rng), rng.choice([17, 18]), rng.choice("ULM"), rng.getrandbits(3)] for _ in range(k)] +
                   [[rtc.getrandbits(3), rtc.getrandbits(36), gen.addr24(rtc), 17, "U", 5]]}


def chk_adsb12(case, note):
    field, tc = case["field"], case["tc"]
    outs = []
    for top3, low36, aa, df, hc, ca in case["ctx"]:
        me = (tc << 51) | (top3 << 48) | (field << 36) | low36
        msg = frames.tohex(frames.df17(aa, me, ca=ca, df=df), 112, hc)
        if (ca ^ field) & 1:
            variants.prelude(pms, msg)   # helpers on the same string, and other message types of the same aircraft, decoded first
        r = call(pms.adsb.altitude, msg)
        r5 = call(pms.adsb.altitude05, msg)
        if 5 <= tc <= 8:
            if r != ("ok", 0):
                return "adsb.altitude(%s) for surface TC%d -> %r, expected 0" % (msg, tc, r)
            if not (r5[0] == "raise" and r5[1] == "RuntimeError"):
                return "altitude05(%s) for surface TC%d -> %r, expected RuntimeError" % (msg, tc, r5)
        elif tc <= 18:
            for nm, rr in (("adsb.altitude", r), ("altitude05", r5)):
                p = judge(rr, gillham.widen12(field), "%s(%s) [TC%d field %s]" % (nm, msg, tc, format(field, "012b")))
                if p:
                    return p
        else:
            for nm, rr in (("adsb.altitude", r), ("altitude05", r5)):
                if rr[0] != "ok" or rr[1] is None or abs(rr[1] - field * 3.28084) > 1e-6:
                    return "%s(%s) [TC%d GNSS height %d m] -> %r, expected %r ft" % (nm, msg, tc, field, rr, field * 3.28084)
        outs.append(repr(r))
    if len(set(outs)) != 1:
        return "ADS-B altitude of field %s TC%d depends on bits outside the field: %r" % (format(field, "012b"), tc, outs)
    note.evals = 2 * len(outs)
    note.cls("TC%d" % tc)
    note.nt(tc >= 20 or nontriv(gillham.widen12(field)) or 5 <= tc <= 8, key=[field, tc])
    return None


def enum_corpus(ctx):
    from vlib import corpus
    for start, _ in corpus.blocks(corpus.adsb(), ctx):
        yield {"start": start}


def chk_corpus(case, note):
    """decode with the library, re-encode with the reference: must reproduce the transmitted 12-bit field (real airborne positions)"""
    from vlib import corpus
    n = 0
    for m, _icao, tc in corpus.adsb()[case["start"]:case["start"] + 100]:
        if not 9 <= tc <= 18:
            continue
        field = (int(m, 16) >> (112 - 32 - 20)) & 0xFFF
        r = call(pms.adsb.altitude, m)
        p = judge(r, gillham.widen12(field), "adsb.altitude(%s) [real frame]" % m)
        if p:
            return p
        alt = r[1]
        if alt is not None and (field >> 4) & 1:  # Q=1: re-encode
            nn = (alt + 1000) // 25
            again = ((nn >> 4) << 5) | (1 << 4) | (nn & 15)
            if again != field or (alt + 1000) % 25:
                return "real frame %s: altitude %r ft re-encodes to field %03X, transmitted %03X" % (m, alt, again, field)
        n += 1
    note.evals = max(1, n)
    note.cls("real-tc11")
    note.nt(n > 0)
    return None



# ---------------------------------------------------------------- volume: one process, very many distinct frames
_VOL_EXP = {}


def vol_step(a, b, k):
    df = (0, 4, 16, 20)[a & 3]
    code = (a >> 2) & 8191
    n = 56 if df in (0, 4) else 112
    body = (((a >> 15) & 16383) << 13) | code
    if n == 112:
        body = (body << 56) | (b >> 8)
    par = (a >> 29) & 0xFFFFFF           # field decoders do not look at the parity field: any 24 bits
    msg = "%0*X" % (n // 4, (df << (n - 5)) | (body << 24) | par)
    if a & (1 << 60):
        msg = msg.lower()
    return judge(call(pms.common.altcode, msg), code, "common.altcode(%s)" % msg)



# ---------------------------------------------------------------- first calls of a freshly imported package, four threads at once
def first_jobs(rng):
    jobs = []
    legal = sorted(gillham.GILLHAM_TABLE)
    for i in range(40):
        code = rng.choice(legal) if i % 4 else rng.getrandbits(13)
        df = rng.choice([0, 4, 16, 20])
        n = 56 if df in (0, 4) else 112
        body = (rng.getrandbits(14) << 13) | code
        if n == 112:
            body = (body << 56) | rng.getrandbits(56)
        msg = frames.tohex(frames.raw(df, body, n, gen.addr24(rng)), n, "U")
        jobs.append(("common.altcode", (msg,), (lambda got, code=code, msg=msg: judge(got, code, "common.altcode(%s)" % msg))))
    return jobs


LEGS = [
    variants.first_use_leg(first_jobs),
    volume.leg(vol_step, 1100000, 2400000, "1.1 million (thorough: 2.4 million per process) distinct DF0/4/16/20 frames through altcode() in one process"),
    Leg("corpus", chk_corpus, enum=enum_corpus, exhaustive=True, doc="937 real airborne position frames: library altitude agrees with the reference table and re-encodes to the transmitted field"),
    Leg("code13", chk_code13, enum=enum_code13, exhaustive=True, doc="all 8192 codes through common.altitude"),
    Leg("carriers", chk_carriers, enum=enum_carriers, exhaustive=True, doc="all 8192 codes x DF0/4/16/20 x random contexts (altcode, surv.altitude)"),
    Leg("adsb12", chk_adsb12, enum=enum_adsb12, exhaustive=True, doc="all 4096 fields x every TC 9-18 and 20-22 (+ surface TCs) x random contexts"),
]
