"""C19 - The software demodulator recovers cleanly modulated frames."""
from hypothesis import strategies as st

from vlib import variants
variants.fake_rtlsdr()   # before the reader module is imported

import pyModeS as pms  # noqa: E402
from pyModeS.extra import rtlreader  # noqa: E402
from ref import crc24, frames
from vlib import gen
from vlib.core import Leg, call as _call
import contextlib
import io


def call(f, *a, **k):
    """library calls with anything the reader prints (debug=True readers trace every frame) swallowed"""
    with contextlib.redirect_stdout(io.StringIO()):
        return _call(f, *a, **k)

PROPERTY = "C19"
RULE = ("1-3 sample buffers per case, 1-4 frames per buffer: DF17 with correct parity, DF20/21 (any AP), DF4/5/11, plus DF17 with 1-3 flipped bits and valid DF17 of which 1-2 bits arrive with both chips high and nearly balanced (the received bits must be "
        "absent); pulse-position modulation at 2 samples/us behind the 8 us preamble, frame amplitude A in [0.3,1.4] with +-10% per-pulse jitter clipped to "
        "that range, any start offset (both sample parities), gaps of at least one frame length (>= 112 samples behind a short frame, >= 224 behind a long one) and a >= 400-sample noise-only lead; every non-pulse sample is noise "
        "bounded by n = min(rho * A_min, 0.19) with rho in [0, 0.316) drawn per buffer (every pulse >= 10 dB above every noise sample of its buffer), shapes zero/constant/uniform/two-level, plus steady noise with drop-outs whose *mean* - the reader's noise floor - is 10 dB below the pulses (on 70 % of the samples, peaks up to 0.37 A_min); "
        "reader created by RtlReader() / RtlReader(debug=True) with a stand-in for the missing rtlsdr module; consecutive _process_buffer() calls share the running noise floor. Oracle: the returned hex strings "
        "are exactly the admissible transmitted frames, in order, upper case, right length; every returned DF17 has reference CRC 0. "
        "non-trivial = >= 2 frames of different length, odd start offset, rho > 0.1, or a corrupted DF17 present"
        ' Also: the noise level is drawn per buffer, the last frame of a buffer may end anywhere up to the buffer end, and complex IQ samples of arbitrary phase are delivered through _read_callback in read-size pieces (leg iq_callback); buffers whose first 6.5-9 ms are packed with strong replies every 400 samples before a quiet stretch and weak frames, and buffers longer than buffer_size (direct call, or two equal reads that overshoot it) with a frame across sample index buffer_size (leg long_buffers); gaps down to one frame length (112 samples behind a short frame); one reader instance over 65 / 650 million samples of dense buffers (leg long_run).'
        ' Second signal model (noise also under the pulses, from 14 dB up); corner payloads; the weakest next to the strongest frame; a preamble at sample 0.')
ASSUMPTIONS = ["noise samples are additionally capped at 0.19: the preamble matcher accepts any sample >= 0.2 as a pulse, so stronger noise could legitimately "
               "look like a preamble and no threshold demodulator could be expected to reject it",
               "frames lie completely inside their buffer", "time stamps returned with the frames are ignored",
               "two signal models: (a) the pulses arrive with the stated amplitude (10 % jitter, kept inside 0.3-1.4) and the noise fills the gaps and the empty chips - judged from 10 dB up; "
               "(b) the noise is also present under the pulses (sample = |pulse + noise at a random phase|, cut off at 1.414) - judged only from 14 dB up, because at 10 dB a sample of a 0.3 pulse "
               "can fall to 0.205 and whether that still is 'amplitude 0.3, 10 dB above the floor' is a matter of reading the property"]

PRE = [1, 0, 1, 0, 0, 0, 0, 1, 0, 1, 0, 0, 0, 0, 0, 0]


def unit(seed, k):
    return (gen.mix64((seed * 0x9E3779B1 + k) & gen._M) >> 11) / 9007199254740992.0


def noise_sample(shape, n, seed, k):
    if shape == "zero" or n == 0:
        return 0.0
    if shape == "constant":
        return n
    u = unit(seed, k)
    if shape == "uniform":
        return n * u
    if shape == "mostly-on":
        return n if u < 0.70 else 0.0   # steady noise with drop-outs: the mean (the reader's noise floor) is 0.70 n, the median n
    return n if u < 0.25 else 0.0  # two-level


def modulate(hexmsg, amp, jseed, smear=()):
    """smear: bit positions (0 = first) transmitted with BOTH chips high and nearly equal, the wrong one 1.5 % stronger: the bit is received inverted"""
    nb = len(hexmsg) * 4
    v = int(hexmsg, 16)
    out = []
    k = 0

    def pulse():
        nonlocal k
        k += 1
        a = amp * (0.9 + 0.2 * unit(jseed, k))
        return min(1.4, max(0.3, a))

    for s in PRE:
        out.append(pulse() if s else None)
    for i in range(nb - 1, -1, -1):
        bit = (v >> i) & 1
        if (nb - 1 - i) in smear:
            a = pulse()
            out += [a * 0.985, a] if bit else [a, a * 0.985]
        elif bit:
            out += [pulse(), None]
        else:
            out += [None, pulse()]
    return out  # None = noise slot


def synth(buf, nlevel):
    """buf: {'lead','items':[{'msg','amp','jseed','gap'}],'shape','nseed'} -> sample list"""
    slots = [None] * buf["lead"]
    for it in buf["items"]:
        slots += modulate(it["msg"], it["amp"], it["jseed"], tuple(it.get("smear", ())))
        slots += [None] * it["gap"]
    if buf.get("additive"):
        # the noise is present under the pulses too: every sample is |pulse + noise| with the noise at a pseudo-random phase, so a pulse of amplitude A
        # arrives anywhere in [A - n, A + n] (cut off at 1.414, the largest magnitude an 8-bit I/Q pair can have).  Only used with n <= A_min / 5.
        import cmath
        out = []
        for k, s in enumerate(slots):
            nz = noise_sample(buf["shape"], nlevel, buf["nseed"], k)
            out.append(min(1.414, abs((s or 0.0) + nz * cmath.exp(2j * cmath.pi * unit(buf["nseed"] ^ 0x5BD1E995, k)))))
        return out
    return [s if s is not None else noise_sample(buf["shape"], nlevel, buf["nseed"], k) for k, s in enumerate(slots)]


def min_amp(buf):
    m = 1.4
    for it in buf["items"]:
        m = min(m, max(0.3, it["amp"] * 0.9))
    return m


def received(it):
    """the bits that actually arrive: the transmitted frame with every smeared bit inverted"""
    v = int(it["msg"], 16)
    nb = len(it["msg"]) * 4
    for pos in it.get("smear", ()):
        v ^= 1 << (nb - 1 - pos)
    return "%0*X" % (nb // 4, v)


def expected(items):
    """-> (frames that must come out, in order; frames that may come out in addition).  What must come out is what *arrives* admissibly - a
    smear can also turn a damaged squitter into a valid one; a valid squitter that arrives smeared may be dropped or handed over repaired."""
    want, repaired = [], set()
    for it in items:
        rx = received(it)
        if admissible(rx):
            want.append(rx)
        elif it.get("smear") and admissible(it["msg"]):
            repaired.add(it["msg"])
    return want, repaired


def matches(got, want, repaired):
    """the returned frames are the wanted ones, in order; in between, the repaired form of a smeared squitter may appear (a receiver may
    drop such a frame or mend it).  A clean frame and a smeared one may carry the same bits."""
    i = 0
    for g in got:
        if i < len(want) and g == want[i]:
            i += 1
        elif g in repaired:
            continue
        else:
            return False
    return i == len(want)


def admissible(msg):
    df = int(msg[:2], 16) >> 3
    if df == 17 and len(msg) == 28:
        return crc24.remainder(int(msg, 16), 112) == 0
    if df in (20, 21) and len(msg) == 28:
        return True
    return df in (4, 5, 11) and len(msg) == 14


@st.composite
def s_frame(draw):
    kind = draw(st.sampled_from(["df17", "df17", "commb", "short", "short", "bad17", "smeared17"]))
    smear = None
    if kind == "smeared17":
        # a valid squitter of which 1-2 bits arrive with both chips high and nearly balanced, the wrong one slightly stronger: what is received
        # is a frame with a non-zero checksum, whatever a receiver makes of the ambiguity
        kind = "df17"
        smear = draw(st.lists(gen.uint(5, 111), min_size=1, max_size=2, unique=True))
    # payloads: uniformly random, or a corner content (an empty register / ME field, all ones, a single bit, alternating bits)
    payload = st.one_of(gen.ubits(56), gen.ubits(56), gen.ubits(56), gen.ubits(56), st.sampled_from([0, 0, (1 << 56) - 1, 1, 1 << 55, 0xAAAAAAAAAAAAAA, 0x55555555555555]))
    if kind in ("df17", "bad17"):
        v = frames.df17(draw(gen.ubits(24)), draw(payload), ca=draw(gen.uint(0, 7)))
        if kind == "bad17":
            for b in draw(st.lists(gen.uint(5, 111), min_size=1, max_size=3, unique=True)):
                v ^= 1 << (111 - b)
        msg = "%028X" % v
    elif kind == "commb":
        msg = "%028X" % frames.commb(draw(st.sampled_from([20, 21])), draw(gen.ubits(24)), draw(payload), draw(gen.ubits(27)))
    else:
        msg = "%014X" % frames.raw(draw(st.sampled_from([4, 5, 11])), draw(gen.ubits(27)), 56, draw(gen.ubits(24)))
    amp = draw(st.one_of(gen.ufloat(0.3, 1.4), gen.ufloat(0.3, 0.9), st.sampled_from([0.3, 1.4, 1.0]), st.sampled_from([0.3, 1.4, 0.3, 1.4, 0.31, 1.39])))   # (last: the weakest next to the strongest in one buffer)
    # the gap behind a frame: at least one frame length of noise - 112 samples (56 us) behind a short frame, 224 behind a long one
    least = len(msg) * 8
    if smear:
        amp = draw(gen.ufloat(0.3, 1.35))     # (the 1.5 % difference must survive the clipping at 1.4)
        return {"msg": msg, "amp": amp, "jseed": draw(gen.ubits(32)), "smear": smear, "gap": draw(gen.uint(least + 16, 700))}
    return {"msg": msg, "amp": amp, "jseed": draw(gen.ubits(32)),
            "gap": draw(st.one_of(st.sampled_from([least, least + 1, least + 2, 240, 241]), gen.uint(least, 700), gen.uint(240, 700)))}


@st.composite
def s_case(draw):
    bufs = []
    for _ in range(draw(st.sampled_from([1, 1, 2, 3]))):
        items = draw(st.lists(s_frame(), min_size=1, max_size=4))
        if draw(gen.uint(0, 2)) == 0:  # the last frame ends close to, or exactly at, the end of its buffer (the next buffer starts with >= 400 noise samples)
            items[-1] = dict(items[-1], gap=draw(st.one_of(st.sampled_from([0, 1, 2, 113, 114]), gen.uint(0, 239))))
        bufs.append({"lead": draw(st.one_of(st.sampled_from([400, 401]), gen.uint(400, 900))) if bufs or draw(gen.uint(0, 3)) else draw(st.sampled_from([0, 0, 1, 2, 15, 16])),   # the first buffer may open with a preamble at sample 0
                     "items": items,
                     "shape": draw(st.sampled_from(["zero", "constant", "uniform", "uniform", "two-level", "mostly-on"])), "nseed": draw(gen.ubits(32)),
                     "rho": draw(st.one_of(gen.ufloat(0.0, 0.316), gen.ufloat(0.2, 0.316), st.sampled_from([0.0, 0.0, 0.25, 0.3159])))})
        if draw(gen.uint(0, 3)) == 0 and not any(it.get("smear") for it in items):
            bufs[-1]["additive"] = True   # the noise also rides on the pulses (leg-level cap of 14 dB, applied in the check)
            # the reader takes its silence threshold from a 226-sample window behind the frame start; behind a short frame that window reaches the first
            # pulse of a successor 112-113 samples away.  With model (a) amplitudes (ratio <= 4.67 < 5) that is harmless; with noise under the pulses a
            # 0.3 frame before a 1.3 frame would be cut - an observation about reading (b) of the property, recorded in DESIGN.md 7.4, not judged here
            bufs[-1]["items"] = [dict(it, gap=max(it["gap"], 120)) if len(it["msg"]) == 14 else it for it in items]
        if bufs[-1]["lead"] < 400:
            # the reader measures the noise floor as the lowest mean of an aligned 100 us window (200 samples): a buffer has to contain one that
            # is all noise (a real buffer is 100 ms long and always does) - here behind the last frame
            bufs[-1]["items"][-1] = dict(bufs[-1]["items"][-1], gap=max(bufs[-1]["items"][-1]["gap"], 640))
        if bufs[-1]["shape"] == "mostly-on":
            # here the level is set against the noise floor as the reader measures it - the mean of a 100 us window: 0.70 n, at most 0.83 n for
            # any single window (4 sigma of 200 samples) - so that the pulses (>= n / 0.37 = 2.7 n) stay 10 dB above every window mean, while the
            # peaks of the noise are less than 10 dB below them
            bufs[-1]["rho"] = draw(st.one_of(gen.ufloat(0.30, 0.37), st.sampled_from([0.37, 0.33])))
    # a frame received correctly and then again with errors in its parity field only (1-3 flips inside the last 24 bits)
    if draw(gen.uint(0, 2)) == 0:
        good = [(bi, ii) for bi, bf in enumerate(bufs) for ii, it in enumerate(bf["items"]) if admissible(it["msg"]) and len(it["msg"]) == 28 and int(it["msg"][:2], 16) >> 3 == 17]
        if good:
            bi, ii = good[draw(gen.uint(0, len(good) - 1))]
            v = int(bufs[bi]["items"][ii]["msg"], 16)
            for bpos in draw(st.lists(gen.uint(0, 23), min_size=1, max_size=3, unique=True)):
                v ^= 1 << bpos
            twin = dict(bufs[bi]["items"][ii], msg="%028X" % v, gap=draw(gen.uint(240, 500)), jseed=draw(gen.ubits(32)))
            tb = draw(gen.uint(bi, len(bufs) - 1))
            if tb == bi:
                bufs[bi]["items"].insert(ii + 1, twin)
                if bufs[bi]["items"][ii]["gap"] < 240:
                    bufs[bi]["items"][ii] = dict(bufs[bi]["items"][ii], gap=240)
            else:
                bufs[tb]["items"].insert(0, twin)
    return {"debug": draw(gen.uint(0, 3)) == 0, "buffers": bufs, "rho": draw(st.one_of(gen.ufloat(0.0, 0.316), gen.ufloat(0.2, 0.316), st.sampled_from([0.0, 0.25, 0.3159])))}


def chk_case(case, note):
    rd = variants.make_reader(rtlreader.RtlReader, bool(case.get("debug")))   # RtlReader(debug=True) traces every frame it looks at; what it returns must not change
    lens, odd, bad = set(), False, False
    for bi, buf in enumerate(case["buffers"]):
        # every buffer has its own noise level: each pulse of the buffer is >= 10 dB above each of its noise samples
        nlevel = min(buf.get("rho", case["rho"]) * min_amp(buf), 0.19)
        if buf.get("additive") and any(it.get("smear") for it in buf["items"]):
            buf = dict(buf, additive=False)   # a smeared bit (two chips 1.5 % apart) would be decided by the noise: the two devices are not combined
        if buf.get("additive"):
            nlevel = min(nlevel, min_amp(buf) / 5.0)   # noise under the pulses: judged from 14 dB up (see ASSUMPTIONS)
            note.cls("noise-under-the-pulses")
        samples = synth(buf, nlevel)
        rd.signal_buffer = list(rd.signal_buffer) + samples
        r = call(rd._process_buffer)
        if r[0] != "ok":
            return "_process_buffer raised %r on buffer %d" % (r[1:], bi)
        got = [m[0] for m in r[1]]
        want, repaired = expected(buf["items"])   # a receiver may drop a smeared squitter or hand over its repaired form, never inadmissible received bits
        for g in got:
            if not isinstance(g, str) or g != g.upper() or len(g) not in (14, 28):
                return "returned %r: not an upper-case hex frame of 14/28 digits" % (g,)
            if len(g) == 28 and int(g[:2], 16) >> 3 == 17 and crc24.remainder(int(g, 16), 112) != 0:
                return "returned DF17 frame %s whose checksum is non-zero" % g
        if not matches(got, want, repaired):
            return "buffer %d (noise %s up to %.4f, amplitudes %s): returned %r, transmitted admissible frames %r" % (
                bi, buf["shape"], nlevel, [round(it["amp"], 3) for it in buf["items"]], got, want)
        pos = buf["lead"]
        for it in buf["items"]:
            lens.add(len(it["msg"]))
            odd = odd or pos % 2 == 1
            bad = bad or not admissible(it["msg"]) or bool(it.get("smear"))
            pos += 16 + len(it["msg"]) * 8 + it["gap"]
    note.cls("buffers%d" % len(case["buffers"]))
    if case.get("debug"):
        note.cls("debug-reader")
    rhos = [b.get("rho", case["rho"]) for b in case["buffers"]]
    if max(rhos) > 0.2:
        note.cls("noise-within-14dB")
    if len(rhos) > 1 and max(rhos) - min(rhos) > 0.15:
        note.cls("noise-level-changes-between-buffers")
    if bad:
        note.cls("corrupted-df17")
    note.nt(len(lens) > 1 or odd or max(rhos) > 0.1 or bad)
    return None


# ------------------------------------------------------------------ the IQ path: _read_callback -> amplitude -> _process_buffer -> handle_messages
class _Collect(rtlreader.RtlReader):
    def handle_messages(self, messages):
        self.got.extend(m[0] for m in messages)


@st.composite
def s_iq(draw):
    return {"items": draw(st.lists(s_frame(), min_size=1, max_size=6)), "lead": draw(gen.uint(400, 3000)), "shape": draw(st.sampled_from(["zero", "uniform", "two-level", "constant"])),
            "nseed": draw(gen.ubits(32)), "rho": draw(st.one_of(gen.ufloat(0.0, 0.316), st.sampled_from([0.0, 0.3]))), "pseed": draw(gen.ubits(32)),
            "chunks": draw(st.sampled_from([1, 2, 2, 5]))}


def chk_iq(case, note):
    """complex samples of the right magnitude and arbitrary phase delivered through _read_callback in read-size pieces: the frames come out of
    handle_messages once the buffer (200 Ki samples) has filled"""
    import numpy as np
    buf = {"lead": case["lead"], "items": case["items"], "shape": case["shape"], "nseed": case["nseed"]}
    nlevel = min(case["rho"] * min_amp(buf), 0.19)
    amp = synth(buf, nlevel)
    size = rtlreader.buffer_size
    if len(amp) > size - 400:
        return None
    amp = amp + [noise_sample(case["shape"], nlevel, case["nseed"], len(amp) + k) for k in range(size - len(amp))]
    phase = np.array([unit(case["pseed"], k) for k in range(0, size, 97)])
    iq = np.array(amp) * np.exp(2j * np.pi * np.resize(phase, size))
    rd = variants.make_reader(_Collect)
    rd.got = []
    pieces = np.array_split(iq, case["chunks"])
    for k, p in enumerate(pieces):
        r = call(rd._read_callback, p, None)
        if r[0] != "ok":
            return "_read_callback raised %r" % (r[1:],)
        if k < len(pieces) - 1 and rd.got:
            return "_read_callback handed over %r before the sample buffer had filled" % rd.got
    want, repaired = expected(case["items"])
    for g in rd.got:
        if len(g) == 28 and int(g[:2], 16) >> 3 == 17 and crc24.remainder(int(g, 16), 112) != 0:
            return "IQ samples through _read_callback: handle_messages received DF17 frame %s whose checksum is non-zero" % g
    if not matches(rd.got, want, repaired):
        return "IQ samples through _read_callback: handle_messages received %r, transmitted admissible frames %r (noise %s up to %.4f)" % (rd.got, want, case["shape"], nlevel)
    note.cls("iq-chunks%d" % case["chunks"])
    note.nt(True)
    return None


# ------------------------------------------------------------------ long buffers: busy head / more samples than one nominal buffer
@st.composite
def s_long(draw):
    kind = draw(st.sampled_from(["dense-head", "oversize", "oversize-iq"]))
    weak = [dict(f, amp=draw(gen.ufloat(0.3, 0.5))) for f in draw(st.lists(s_frame(), min_size=1, max_size=3))]
    c = {"kind": kind, "shape": draw(st.sampled_from(["zero", "constant", "uniform", "two-level"])), "nseed": draw(gen.ubits(32)),
         "rho": draw(st.one_of(gen.ufloat(0.0, 0.316), st.sampled_from([0.0, 0.3]))), "pseed": draw(gen.ubits(32))}
    if kind == "dense-head":
        # strong short replies every 400 samples (gap 272 >= one frame length) for the first 6.5-9 ms, a quiet stretch, then weak frames
        c["lead"] = draw(st.one_of(gen.uint(0, 199), gen.uint(73, 199)))
        n = draw(gen.uint(33, 46))
        per = draw(st.sampled_from([272, 272, 272, 240, 280]))
        c["items"] = [{"msg": "%014X" % frames.raw(draw(st.sampled_from([4, 5, 11])), draw(gen.ubits(27)), 56, draw(gen.ubits(24))), "amp": draw(gen.ufloat(1.0, 1.4)),
                       "jseed": draw(gen.ubits(32)), "gap": per} for _ in range(n)]
        c["items"][-1]["gap"] = draw(gen.uint(400, 3000))
        c["items"] += weak
        c["total"] = None
    else:
        # more samples than one nominal buffer (reads that do not add up to exactly buffer_size, or a direct call on a long list):
        # frames early, one across sample index buffer_size, others behind it
        size = rtlreader.buffer_size
        early = draw(st.lists(s_frame(), min_size=0, max_size=2))
        c["lead"] = draw(gen.uint(400, 2000))
        used = c["lead"] + sum(16 + len(f["msg"]) * 8 + f["gap"] for f in early)
        across = draw(s_frame())
        start = size - draw(gen.uint(1, 16 + len(across["msg"]) * 8 - 1))
        if early:
            early[-1] = dict(early[-1], gap=early[-1]["gap"] + start - used)
        else:
            c["lead"] = start
        c["items"] = early + [across] + weak
        c["total"] = size + draw(st.one_of(gen.uint(2000, 40000), st.sampled_from([35200, 2048, 102400])))
    return c


def chk_long(case, note):
    import numpy as np
    buf = {"lead": case["lead"], "items": case["items"]}
    nlevel = min(case["rho"] * min_amp(buf), 0.19)
    tile = np.array([noise_sample(case["shape"], nlevel, case["nseed"], k) for k in range(1024)])
    slots = [None] * case["lead"]
    for it in case["items"]:
        slots += modulate(it["msg"], it["amp"], it["jseed"]) + [None] * it["gap"]
    if case["total"] is not None:
        if len(slots) > case["total"]:
            return None
        slots += [None] * (case["total"] - len(slots))
    noise = np.resize(tile, len(slots)).tolist()
    samples = [s if s is not None else noise[k] for k, s in enumerate(slots)]
    want, repaired = expected(case["items"])
    if case["kind"] == "oversize-iq":
        phase = np.resize(np.array([unit(case["pseed"], k) for k in range(2048)]), len(samples))
        iq = np.array(samples) * np.exp(2j * np.pi * phase)
        rd = variants.make_reader(_Collect)
        rd.got = []
        half = len(iq) // 2          # two reads of the same size, the second one takes the buffer beyond buffer_size
        for piece in (iq[:half], iq[half:]):
            r = call(rd._read_callback, piece, None)
            if r[0] != "ok":
                return "_read_callback raised %r" % (r[1:],)
        got = rd.got
    else:
        rd = variants.make_reader(rtlreader.RtlReader)
        rd.signal_buffer = samples
        r = call(rd._process_buffer)
        if r[0] != "ok":
            return "_process_buffer raised %r on a buffer of %d samples" % (r[1:], len(samples))
        got = [m[0] for m in r[1]]
    for g in got:
        if len(g) == 28 and int(g[:2], 16) >> 3 == 17 and crc24.remainder(int(g, 16), 112) != 0:
            return "%s buffer of %d samples: returned DF17 frame %s whose checksum is non-zero" % (case["kind"], len(samples), g)
    if not matches(got, want, repaired):
        miss = [m for m in want if m not in got]
        return "%s buffer of %d samples (noise %s up to %.4f): %d frames returned, %d transmitted admissible; missing %r, unexpected %r" % (
            case["kind"], len(samples), case["shape"], nlevel, len(got), len(want), miss[:3], [m for m in got if m not in want][:3])
    note.evals = len(want)
    note.cls(case["kind"])
    note.nt(True)
    return None


# ------------------------------------------------------------------ one reader for a long time: tens of seconds of signal through one instance
def enum_longrun(ctx):
    for k in range(ctx.nshards):
        if ctx.mine(k):
            yield {"samples": 65000000 if ctx.tier == "quick" else 650000000, "seed": ctx.rng("longrun", k).getrandbits(40)}


def chk_longrun(case, note):
    """A quiet first buffer lets the reader learn the noise floor; every later buffer is *dense* - short replies 112-190 samples apart, so that no
    aligned 100 us window of it is free of pulses - and mixes strong and weak replies.  Only the floor learnt earlier lets the weak ones through,
    whichever of the several hundred buffers the reader is at."""
    import random
    rng = random.Random(case["seed"])
    rd = variants.make_reader(rtlreader.RtlReader)
    nlevel = 0.05
    quiet = {"lead": 3000, "items": [{"msg": "%014X" % frames.raw(4, rng.getrandbits(27), 56, rng.getrandbits(24)), "amp": 1.0, "jseed": 1, "gap": 3000}], "shape": "uniform", "nseed": rng.getrandbits(32)}
    rd.signal_buffer = synth(quiet, nlevel)
    r = call(rd._process_buffer)
    if r[0] != "ok" or [m[0] for m in r[1]] != [quiet["items"][0]["msg"]]:
        return "first (quiet) buffer: %r, transmitted %r" % (r, quiet["items"][0]["msg"])
    kinds = []
    for kind in range(6):      # six different dense buffers, used in rotation
        items = []
        tight = kind % 2 == 0   # every reply weak, one frame length apart, steady noise: the window means of such a buffer say nothing about the floor
        for j in range(rng.randint(30, 60) if not tight else rng.randint(8, 30)):
            items.append({"msg": "%014X" % frames.raw(rng.choice([4, 5, 11]), rng.getrandbits(27), 56, rng.getrandbits(24)),
                          "amp": (rng.choice([0.3, 0.31, 0.33]) if tight else (rng.choice([0.3, 0.32, 0.4, 1.0, 1.4]) if j % 2 else rng.uniform(0.3, 1.4))),
                          "jseed": rng.getrandbits(32), "gap": rng.randint(112, 118) if tight else rng.randint(112, 190)})
        buf = {"lead": rng.randint(0, 60) if tight else rng.randint(0, 150), "items": items, "shape": "constant" if tight else "uniform", "nseed": rng.getrandbits(32)}
        kinds.append((synth(buf, nlevel), [it["msg"] for it in items if admissible(it["msg"])]))
    seen, nbuf, nfr = len(rd.signal_buffer) + 6000, 0, 0
    while seen < case["samples"]:
        samples, want = kinds[nbuf % len(kinds)]
        rd.signal_buffer = list(rd.signal_buffer) + samples
        r = call(rd._process_buffer)
        if r[0] != "ok":
            return "_process_buffer raised %r on buffer %d of one reader (%d samples processed before)" % (r[1:], nbuf + 1, seen)
        got = [m[0] for m in r[1]]
        if got != want:
            miss = [m for m in want if m not in got]
            return "buffer %d of one reader (%d samples processed before it; dense: replies 112-190 samples apart, amplitudes 0.3-1.4, noise up to %.2f): %d frames returned, %d transmitted; missing %r" % (
                nbuf + 1, seen, nlevel, len(got), len(want), miss[:4])
        seen += len(samples)
        nbuf += 1
        nfr += len(want)
    note.evals = nfr
    note.cls("long-run-%d-buffers" % nbuf)
    note.nt(True, key=["longrun", case["seed"], case["samples"]])
    return None


LEGS = [Leg("long_run", chk_longrun, enum=enum_longrun, shards_quick=2, shards_thorough=4, exhaustive=False,
            doc="one reader instance fed 65 million samples (thorough: 650 million) of dense buffers after a quiet first one: weak replies between strong ones are returned in every buffer"),
        Leg("long_buffers", chk_long, strategy=s_long, quick=64, thorough=1500,
            doc="buffers whose first 6.5-9 ms are densely occupied by strong replies before weak frames; buffers longer than buffer_size with a frame across that index"),
        Leg("iq_callback", chk_iq, strategy=s_iq, quick=64, thorough=1200, doc="complex IQ samples through _read_callback (amplitude, buffering up to buffer_size, handle_messages)"),
        Leg("demodulate", chk_case, strategy=s_case, quick=5000, thorough=120000, doc="synthetic PPM buffers through RtlReader._process_buffer")]
