"""C10 - Aircraft identification: callsign and category round-trip."""
from hypothesis import strategies as st

import pyModeS as pms
from ref import frames
from vlib import gen
from vlib import variants
from vlib import volume
from vlib.core import Leg, call

PROPERTY = "C10"
RULE = ("identifications over the Annex 10 six-bit alphabet (A-Z=1..26, space=32, 0-9=48..57): every legal code at every one of the 8 positions "
        "with the other 7 random legal (exhaustive 8x37) plus Hypothesis-drawn strings; TC 1-4 x category 0-7 x DF17/18 (callsign, category) and "
        "BDS 2,0 in DF20/21 with random header/address (cs20); oracle: output == input with ' ' -> '_', category == field; independence: "
        "changing one character changes exactly that output position; leg sparse: blank and nearly blank identifications, single characters at every position, one character eight times, digits only. non-trivial = string with >= 4 distinct symbols or a space/digit"
        ' Also: the keyword form callsign(msg=...), 98 real identification frames (leg corpus), four concurrent callers decoding different identifications (leg threads), 300 000 / 2.4 million distinct frames in a row in one process (leg volume), the first calls of a freshly imported package made by four threads at once (leg first_use), BDS 2,0 replies whose AP digits repeat digits inside MB, look-alike DF16/DF19 frames and other message types of the same aircraft decoded first, the decoders first handed damaged forms of the frame.')
ASSUMPTIONS = ["character codes per Annex 10 Vol IV table 3-9 (ref table below, written from the standard)"]

ALPHA = "ABCDEFGHIJKLMNOPQRSTUVWXYZ 0123456789"


def code(ch):
    if "A" <= ch <= "Z":
        return ord(ch) - 64
    if ch == " ":
        return 32
    return 48 + int(ch)


def pack(cs):
    v = 0
    for ch in cs:
        v = (v << 6) | code(ch)
    return v


def run_one(cs, tc, cat, df, addr, head27, hc):
    exp = cs.replace(" ", "_")
    me = (tc << 51) | (cat << 48) | pack(cs)
    m = frames.tohex(frames.df17(addr, me, ca=head27 & 7, df=df), 112, hc)
    if head27 & 8:
        variants.prelude(pms, m)   # helpers on the same string, and other message types of the same aircraft, decoded first
    if head27 & 32:
        variants.damaged_calls(pms.adsb.callsign, m)
        variants.damaged_calls(pms.adsb.category, m)
    r = call(pms.adsb.callsign, m)
    if r != ("ok", exp):
        return "adsb.callsign(%s) -> %r, encoded %r" % (m, r, exp)
    rk = call(pms.adsb.callsign, msg=m)
    if rk != r:
        return "adsb.callsign(msg=%s) -> %r, positional -> %r" % (m, rk, r)
    r = call(pms.adsb.category, m)
    if r != ("ok", cat):
        return "adsb.category(%s) -> %r, encoded %d" % (m, r, cat)
    mb = (0x20 << 48) | pack(cs)
    for cdf in (20, 21):
        v2 = frames.commb(cdf, addr, mb, head27)
        if head27 & 16 and hc != "M":   # the address chosen so that the six AP digits are the same as six digits inside MB
            v2 = frames.commb_ap_repeats(cdf, mb, head27, 8 + (head27 >> 5) % 9)[1]
        m2 = frames.tohex(v2, 112, hc)
        r = call(pms.commb.cs20, m2)
        if r != ("ok", exp):
            return "commb.cs20(%s) -> %r, encoded %r" % (m2, r, exp)
        r = call(pms.bds.bds20.is20, m2)
        if r != ("ok", True):
            return "is20(%s) -> %r for a valid BDS 2,0 identification %r" % (m2, r, exp)
    return None


@st.composite
def s_cs(draw):
    cs = "".join(draw(st.lists(st.sampled_from(ALPHA), min_size=8, max_size=8)))
    return {"cs": cs, "pos": draw(st.integers(0, 7)), "new": draw(st.sampled_from(ALPHA)), "tc": draw(st.integers(1, 4)), "cat": draw(st.integers(0, 7)),
            "df": draw(st.sampled_from([17, 18])), "ctx_addr": draw(gen.addresses), "ctx_head": draw(gen.ubits(27)), "hc": draw(gen.hexcase)}


def chk_cs(case, note):
    cs = case["cs"]
    p = run_one(cs, case["tc"], case["cat"], case["df"], case["ctx_addr"], case["ctx_head"], case["hc"])
    if p:
        return p
    cs2 = cs[: case["pos"]] + case["new"] + cs[case["pos"] + 1:]
    p = run_one(cs2, case["tc"], case["cat"], case["df"], case["ctx_addr"], case["ctx_head"], case["hc"])
    if p:
        return "after changing character %d: %s" % (case["pos"], p)
    note.evals = 12
    note.nt(len(set(cs)) >= 4 or any(c in " 0123456789" for c in cs))
    note.cls("TC%d" % case["tc"])
    return None


def enum_positions(ctx):
    idx = 0
    for pos in range(8):
        for ch in ALPHA:
            idx += 1
            if ctx.mine(idx):
                rng = ctx.rng("pos", idx)
                others = "".join(rng.choice(ALPHA) for _ in range(8))
                yield {"cs": others[:pos] + ch + others[pos + 1:], "pos": pos, "new": rng.choice(ALPHA), "tc": rng.randint(1, 4), "cat": rng.randint(0, 7),
                       "df": rng.choice([17, 18]), "ctx_addr": gen.addr24(rng), "ctx_head": rng.getrandbits(27), "hc": rng.choice("ULM")}


def enum_sparse(ctx):
    """identifications that are mostly or wholly padding: blank, one character at each position with spaces (or one repeated filler) around it,
    one character eight times, text of every length padded with spaces on the right or the left, digits and spaces only"""
    idx = 0
    base = []
    for filler in (" ", "A", "0"):
        for pos in range(8):
            for ch in ALPHA:
                base.append(filler * pos + ch + filler * (7 - pos))
    base += [ch * 8 for ch in ALPHA]
    for n in range(0, 9):
        base += ["KLM1023X"[:n] + " " * (8 - n), " " * (8 - n) + "KLM1023X"[:n], "12345678"[:n] + " " * (8 - n), "0" * n + " " * (8 - n)]
    for cs in base:
        idx += 1
        if ctx.mine(idx):
            rng = ctx.rng("sparse", idx)
            yield {"cs": cs, "pos": rng.randrange(8), "new": rng.choice(ALPHA + "   "), "tc": rng.randint(1, 4), "cat": rng.randint(0, 7),
                   "df": rng.choice([17, 18]), "ctx_addr": gen.addr24(rng), "ctx_head": rng.getrandbits(27), "hc": rng.choice("ULM")}


def enum_corpus(ctx):
    from vlib import corpus
    for start, _ in corpus.blocks(corpus.adsb(), ctx):
        yield {"start": start}


def chk_corpus(case, note):
    """real identification frames: decode with the library, re-encode with the reference alphabet, compare with the transmitted bits"""
    from vlib import corpus
    n = 0
    for m, _icao, tc in corpus.adsb()[case["start"]:case["start"] + 100]:
        if not 1 <= tc <= 4:
            continue
        r = call(pms.adsb.callsign, m)
        if r[0] != "ok" or not isinstance(r[1], str) or len(r[1]) != 8 or any(ch not in ALPHA.replace(" ", "_") for ch in r[1]):
            return "adsb.callsign(%s) -> %r for a real identification frame" % (m, r)
        bits = (int(m, 16) >> 24) & ((1 << 48) - 1)
        if pack(r[1].replace("_", " ")) != bits:
            return "real frame %s: callsign %r re-encodes to %012X, transmitted %012X" % (m, r[1], pack(r[1].replace("_", " ")), bits)
        if call(pms.adsb.category, m) != ("ok", (int(m, 16) >> 72) & 7):
            return "adsb.category(%s) -> %r" % (m, call(pms.adsb.category, m))
        n += 1
    note.evals = max(1, n)
    note.cls("real-tc4")
    note.nt(n > 0)
    return None


def enum_threads(ctx):
    for k in range(4 if ctx.tier == "quick" else 32):
        if ctx.mine(k):
            yield {"ctx_seed": ctx.rng("thr", k).getrandbits(32)}


def chk_threads(case, note):
    """four threads decode different identifications at the same time (switch interval 1 us): every call still returns its own callsign"""
    import random
    from vlib import variants
    rng = random.Random(case["ctx_seed"])
    jobs = []
    for _ in range(12):
        cs = "".join(rng.choice(ALPHA) for _ in range(8))
        me = (rng.randint(1, 4) << 51) | (rng.getrandbits(3) << 48) | pack(cs)
        m = frames.tohex(frames.df17(gen.addr24(rng), me), 112)
        m2 = frames.tohex(frames.commb(20, gen.addr24(rng), (0x20 << 48) | pack(cs), rng.getrandbits(27)), 112)
        jobs.append(("adsb.callsign", pms.adsb.callsign, (m,), ("ok", cs.replace(" ", "_"))))
        jobs.append(("commb.cs20", pms.commb.cs20, (m2,), ("ok", cs.replace(" ", "_"))))
    p = variants.hammer(jobs, nthreads=4, rounds=150)
    note.evals = len(jobs) * 4 * 150
    note.cls("concurrent-callers")
    note.nt(True)
    return p



# ---------------------------------------------------------------- volume: one process, very many distinct frames
def vol_step(a, b, k):
    cs = "".join(ALPHA[(b >> (6 * i)) % len(ALPHA)] for i in range(8))
    tc, cat = 1 + (a & 3), (a >> 2) & 7
    me = (tc << 51) | (cat << 48) | pack(cs)
    m = "%02X%06X%014X%06X" % ((0x90 if a & 256 else 0x88) | (a >> 5 & 7), (a >> 10) & 0xFFFFFF, me, (a >> 34) & 0xFFFFFF)   # parity is not looked at by callsign()
    if a & (1 << 62):
        m = m.lower()
    r = call(pms.adsb.callsign, m)
    if r != ("ok", cs.replace(" ", "_")):
        return "adsb.callsign(%s) -> %r, encoded %r" % (m, r, cs.replace(" ", "_"))
    return None


# ---------------------------------------------------------------- first calls of a freshly imported package, four threads at once
def first_jobs(rng):
    jobs = []
    for _ in range(30):
        cs = "".join(rng.choice(ALPHA) for _ in range(8))
        tc, cat = rng.randint(1, 4), rng.getrandbits(3)
        m = frames.tohex(frames.df17(gen.addr24(rng), (tc << 51) | (cat << 48) | pack(cs), ca=rng.getrandbits(3), df=rng.choice([17, 18])), 112, rng.choice("UL"))
        jobs.append(("adsb.callsign", (m,), ("ok", cs.replace(" ", "_"))))
        jobs.append(("adsb.category", (m,), ("ok", cat)))
        m2 = frames.tohex(frames.commb(rng.choice([20, 21]), gen.addr24(rng), (0x20 << 48) | pack(cs), rng.getrandbits(27)), 112, "U")
        jobs.append(("commb.cs20", (m2,), ("ok", cs.replace(" ", "_"))))
    return jobs


LEGS = [
    variants.first_use_leg(first_jobs),
    volume.leg(vol_step, 300000, 2400000, "300 000 (thorough: 2.4 million per process) distinct identification frames through callsign() in one process"),
    Leg("threads", chk_threads, enum=enum_threads, shards_quick=4, shards_thorough=8, doc="concurrent callers with a 1 us switch interval (detection is probabilistic, the verdict on a stateless decoder is not)"),
    Leg("corpus", chk_corpus, enum=enum_corpus, exhaustive=True, doc="98 real identification frames: decoded callsign re-encodes to the transmitted bits"),
    Leg("positions", chk_cs, enum=enum_positions, exhaustive=True, doc="every legal code at every position (8 x 37)"),
    Leg("sparse", chk_cs, enum=enum_sparse, exhaustive=True, doc="identifications that are mostly padding: blank, one character at each position among spaces / one filler, one character eight times, "
        "text of every length padded right or left, digits and spaces only (about 1000 strings, each with a one-character change)"),
    Leg("strings", chk_cs, strategy=s_cs, quick=12000, thorough=600000, doc="random identifications with a one-character change"),
]
