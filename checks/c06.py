"""C06 - cprNL equals the DO-260B longitude-zone function (Python module and emulated Cython twin)."""
import math

from hypothesis import strategies as st

import pyModeS as pms  # noqa: F401  (path check)
from pyModeS import py_common
from ref import cpr
from vlib import dual
from vlib import variants
from vlib import volume
from vlib.core import Leg, call

PROPERTY = "C06"
RULE = ("latitudes: the full 0.0005-degree grid over [-90,90] (blocks of 500 points, exhaustive; 0.00002 in thorough), "
        "float neighbourhoods (0..8 ulp, 1e-12 .. 9e-4) of each of the 58 transition latitudes and of 0, 87, 90 with both signs, "
        "and Hypothesis floats; each judged against the reference NL (table from the closed form, cross-checked with the "
        "values printed in DO-260B), either neighbour accepted within 1e-9 deg of a transition; evenness and monotonicity on "
        "every block; both py_common.cprNL and the emulated working-tree c_common.cprNL. non-trivial = latitude within "
        "0.02 deg of a transition or |lat| >= 86.5 or |lat| < 1e-6"
        ' Also: whole-degree latitudes passed as Python ints, 140 000 / 1.3 million distinct latitudes in a row in one process (leg volume), the first cprNL calls of a freshly imported package made by four threads at once (leg first_use), latitudes as numpy.float16 / float32 / float64 scalars, Decimal and Fraction around every transition (leg single_precision).'
        ' Exactly +-87.0 must give 2.')
HOSTILE_UNDERFLOW = True   # the hostile process state of this check also traps floating-point underflow (latitudes next to 0 included
ASSUMPTIONS = ["the Cython twin is observed through /verif/pyxemu (no Cython compiler on the image); calibrated against the pre-built binary in C15",
               "reference transition latitudes computed in float64 (error ~1e-14 deg) and checked against the 8-decimal DO-260B table"]

_impls = {}


def impl(name):
    if name not in _impls:
        if name == "py":
            _impls[name] = py_common.cprNL
        else:
            _impls[name] = dual.emulated().cprNL
    return _impls[name]


def judge(f, lat):
    r = call(f, lat)
    ok = cpr.NL_set(lat)
    if r[0] != "ok":
        return "cprNL(%r) raised %s" % (lat, r[1:])
    try:
        v = int(r[1])
    except Exception:
        return "cprNL(%r) returned %r" % (lat, r[1])
    if v != r[1] or v not in ok:
        return "cprNL(%r) = %r, DO-260B NL = %s" % (lat, r[1], sorted(ok))
    return None


def nontrivial(lat):
    a = abs(lat)
    return a >= 86.5 or a < 1e-6 or cpr.near_transition(a, 0.02)


# ------------------------------------------------------------ grid (exhaustive)
def enum_grid(ctx):
    step = 0.0005 if ctx.tier == "quick" else 0.00002
    npts = int(round(180 / step)) + 1
    blk = 500 if ctx.tier == "quick" else 5000
    idx = 0
    for im in ("py", "c"):
        for start in range(0, npts, blk):
            idx += 1
            if ctx.mine(idx):
                yield {"impl": im, "start": start, "count": min(blk, npts - start), "step": step}


def chk_grid(case, note):
    f = impl(case["impl"])
    prev = None
    nt = 0
    for k in range(case["start"], case["start"] + case["count"]):
        lat = -90 + k * case["step"]
        if lat > 90:
            lat = 90.0
        p = judge(f, lat)
        if p:
            return "[%s] %s" % (case["impl"], p)
        v = f(lat)
        if f(-lat) != v:
            return "[%s] cprNL not even: NL(%r)=%r NL(%r)=%r" % (case["impl"], lat, v, -lat, f(-lat))
        if prev is not None:
            plat, pv = prev
            # monotone non-increasing in |lat| (grid ascending: |lat| decreases for lat<0, increases for lat>0)
            if (abs(lat) > abs(plat) and v > pv) or (abs(lat) < abs(plat) and v < pv):
                return "[%s] cprNL not monotone in |lat|: NL(%r)=%r NL(%r)=%r" % (case["impl"], plat, pv, lat, v)
        prev = (lat, v)
        nt += nontrivial(lat)
    note.evals = case["count"]
    note.cls("grid-" + case["impl"])
    note.nt(nt > 0)
    return None


# ------------------------------------------------------------ neighbourhoods
DELTAS = [0.0] + [d for m in (1e-12, 1e-10, 2e-9, 1e-8, 1e-6, 1e-4, 3e-4, 5e-4, 8.6e-4, 8.8e-4, 9e-4, 2e-3) for d in (m, -m)]


def centres():
    return [("t%d" % nl, t) for nl, t in sorted(cpr.TRANS.items())] + [("zero", 0.0), ("pole", 90.0)] + [("deg%d" % d, float(d)) for d in (1, 10, 11, 45, 86, 88)]


def enum_nbh(ctx):
    idx = 0
    for im in ("py", "c"):
        for name, c in centres():
            for sgn in (1, -1):
                idx += 1
                if ctx.mine(idx):
                    yield {"impl": im, "centre": name, "lat0": sgn * c}


def chk_nbh(case, note):
    f = impl(case["impl"])
    c = case["lat0"]
    pts = [c + d for d in DELTAS]
    x = c
    y = c
    for _ in range(8):
        x = math.nextafter(x, math.inf)
        y = math.nextafter(y, -math.inf)
        pts += [x, y]
    if c == int(c):
        pts.append(int(c))  # whole degrees are often passed as Python ints
    n = 0
    for lat in pts:
        if not -90 <= lat <= 90:
            continue
        n += 1
        p = judge(f, lat)
        if p:
            return "[%s] %s" % (case["impl"], p)
        if f(lat) != f(-lat):
            return "[%s] cprNL not even at %r" % (case["impl"], lat)
    note.evals = n
    note.cls("nbh-" + case["impl"])
    note.nt(True)
    return None


# ------------------------------------------------------------ hypothesis floats
@st.composite
def s_lat(draw):
    kind = draw(st.sampled_from(["any", "any", "trans", "hi", "zero"]))
    if kind == "any":
        lat = draw(st.floats(-90, 90, allow_nan=False))
    elif kind == "trans":
        t = draw(st.sampled_from(sorted(cpr.TRANS.values())))
        lat = draw(st.sampled_from([1, -1])) * (t + draw(st.floats(-0.01, 0.01)))
    elif kind == "hi":
        lat = draw(st.sampled_from([1, -1])) * draw(st.floats(86.5, 90))
    else:
        lat = draw(st.one_of(st.floats(-1e-6, 1e-6), st.sampled_from([1e-160, -1e-160, 1e-200, 1e-300, -2.3e-308, 5e-324, -5e-324, 1e-155, 1e-20])))
    lat2 = draw(st.floats(-90, 90, allow_nan=False))
    return {"impl": draw(st.sampled_from(["py", "c"])), "lat": max(-90.0, min(90.0, lat)), "lat2": lat2}


def chk_float(case, note):
    f = impl(case["impl"])
    lat, lat2 = case["lat"], case["lat2"]
    for x in (lat, lat2, -lat):
        p = judge(f, x)
        if p:
            return "[%s] %s" % (case["impl"], p)
    a, b = sorted([abs(lat), abs(lat2)])
    if f(a) < f(b) and not (cpr.near_transition(a) or cpr.near_transition(b)):
        return "[%s] not monotone: NL(%r)=%r < NL(%r)=%r" % (case["impl"], a, f(a), b, f(b))
    note.cls("float-" + case["impl"])
    note.nt(nontrivial(lat))
    return None



# ---------------------------------------------------------------- reduced-precision scalar arguments (a latitude read from a float32 array)
def enum_single(ctx):
    idx = 0
    for ti, t in enumerate(cpr.TRANS_LIST + [0.0, 87.0, 90.0, 45.0]):
        for sign in (1, -1):
            for k0 in range(-300, 301, 25):
                idx += 1
                if ctx.mine(idx):
                    yield {"t": ti, "sign": sign, "k0": k0}


def chk_single(case, note):
    import numpy as np
    t = (cpr.TRANS_LIST + [0.0, 87.0, 90.0, 45.0])[case["t"]] * case["sign"]
    n = 0
    for name in ("py", "c"):
        f = impl(name)
        y = np.float32(t)
        for _ in range(abs(case["k0"])):
            with np.errstate(all="ignore"):   # (the harness's own arithmetic next to 0 underflows by design)
                y = np.nextafter(y, np.float32(1000.0 if case["k0"] > 0 else -1000.0))
        for k in range(25):
            if abs(float(y)) <= 90.0:
                import decimal
                import fractions
                with np.errstate(all="ignore"):
                    y16 = np.float16(y)
                for what, arg in (("numpy.float32", y), ("numpy.float64", np.float64(y)), ("numpy.float16", y16),
                                  ("decimal.Decimal", decimal.Decimal(float(y))), ("fractions.Fraction", fractions.Fraction(float(y)))):
                    if what == "numpy.float16":
                        if abs(float(y16)) > 90.0:
                            continue
                        exact = float(y16)
                    else:
                        exact = float(y)
                    r = call(f, arg)
                    ok = cpr.NL_set(exact)
                    n += 1
                    if what in ("decimal.Decimal", "fractions.Fraction") and r[0] == "raise" and r[1] in ("TypeError", "RuntimeError"):
                        continue   # exact rational types are not promised by the signature: refusing them is fine, a wrong answer is not
                    if r[0] != "ok" or isinstance(r[1], bool) or int(r[1]) != r[1] or int(r[1]) not in ok:
                        y = np.float32(exact) if what == "numpy.float16" else y
                        return "[%s] cprNL(%s(%r)) -> %r; the latitude is exactly %r, DO-260B NL = %s, cprNL of the same value as a Python float = %r" % (
                            name, what, exact, r, exact, sorted(ok), call(f, exact))
            with np.errstate(all="ignore"):
                y = np.nextafter(y, np.float32(1000.0))
    note.evals = n
    note.cls("single-precision-neighbourhood")
    note.nt(True, key=[case["t"], case["sign"], case["k0"]])
    return None


# ---------------------------------------------------------------- volume: one process, very many distinct latitudes
def vol_step(a, b, k):
    lat = (a >> 11) / 9007199254740992.0 * 180.0 - 90.0
    if a & 7 == 0:   # close to a transition
        t = cpr.TRANS_LIST[b % len(cpr.TRANS_LIST)]
        lat = (t + ((b >> 20) % 2001 - 1000) * 1e-7) * (1 if b & (1 << 40) else -1)
    return judge(impl("py"), lat)



# ---------------------------------------------------------------- first calls of a freshly imported package, four threads at once
def first_jobs(rng):
    jobs = []
    for _ in range(40):
        k = rng.randrange(len(cpr.TRANS_LIST) - 1)
        lat = (cpr.TRANS_LIST[k] + cpr.TRANS_LIST[k + 1]) / 2 + rng.uniform(-0.05, 0.05)   # well inside a zone
        lat = rng.choice([lat, -lat])
        jobs.append(("common.cprNL", (lat,), ("ok", cpr.NL(lat))))
    return jobs


LEGS = [
    variants.first_use_leg(first_jobs),
    volume.leg(vol_step, 140000, 1300000, "140 000 (thorough: 1.3 million per process) distinct latitudes through cprNL in one process"),
    Leg("single_precision", chk_single, enum=enum_single, exhaustive=False,
        doc="numpy.float16 / float32 / float64 scalars, Decimal and Fraction latitudes: the 600 single-precision neighbours of every transition, 0, 87, 90, judged at their exact value"),
    Leg("grid", chk_grid, enum=enum_grid, exhaustive=True, doc="full latitude grid, both implementations, evenness and monotonicity"),
    Leg("neighbourhoods", chk_nbh, enum=enum_nbh, exhaustive=True, doc="ulp- to 2e-3-neighbourhoods of 58 transitions, 0, 87, 90"),
    Leg("floats", chk_float, strategy=s_lat, quick=20000, thorough=600000, doc="Hypothesis floats, transition-biased"),
]
