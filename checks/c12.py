"""C12 - BDS register inference is total, format-sound and complete on plausible data."""
import math

from hypothesis import strategies as st

import pyModeS as pms
from ref import doc9871 as D
from ref import frames, gillham, isa
from ref import registers as R
from vlib import gen
from vlib import variants
from vlib.core import Leg, call

PROPERTY = "C12"
RULE = ("five relations, each with its own generator. (1) totality: any 112-bit frame (all DF, DF17 x every TC, random / status-biased / all-zero payloads) x mrar: "
        "infer returns None or a string, 'EMPTY' for an all-zero payload, the type-code label for DF17 TC 1-22/28/29/31. (2) consistency on DF20/21: infer == "
        "comma-joined sorted labels whose isXX accepts. (3) completeness: register contents built field by field from the Doc 9871 layouts, status-consistent, inside "
        "the envelope incl. its boundaries (GS/TAS 600, |TAS-GS| 200, roll 49.9, IAS 500, Mach 1.000, VR 5984, wind 250, T -80/60; BDS 6,0 on DF20 with IAS derived from "
        "Mach at the frame altitude through an independent ISA), judged 'valid' by the reference rules -> isXX true and label among infer's candidates. (4) soundness: a "
        "valid content with exactly one rule broken (status cleared over a set magnitude bit, reserved bit, register byte, illegal character, BDS 4,4 source > 4) -> isXX "
        "false, label absent. (5) is50or60: payloads satisfying both layouts by construction, or only one; None unless both; the named interpretation is the one whose "
        "velocity vector is nearest the reference (1 m/s margin, ambiguous cases counted not judged). non-trivial = payload accepted by >= 1 predicate, every soundness "
        "case, every is50or60 case where both apply"
        ' Also: DF20 altitudes from -1000 to 50000 ft with the edge of the 20 kt IAS/Mach rule, BDS 5,3 status rules (is53), is50or60 reference altitudes from -1000 to 50000 ft incl. -1, 0, 1 as ints and floats, helper calls on the same string first, 10 000 real DF20/21 replies labelled by the reference rules (leg corpus), near-zero Mach numbers, IAS 0/1 kt and slow references in is50or60.'
        ' Leg scan_order: neighbour scans (altitude code, Mach, IAS, is50or60 references) in opposite orders in two fresh copies of the package.')
ASSUMPTIONS = ["reference rules ref/registers.py: envelope as quoted in the property; payloads outside the envelope or with only a sign bit set under a clear status are not judged",
               "BDS 3,0 completeness uses the conservative subset TTI != 3 and ARA bits 16-22 < 48", "IAS/Mach consistency judged with an 18 kt margin (rule is 20 kt)"]

LABELS = ["10", "17", "20", "30", "40", "50", "60"]
MRAR = ["44", "45"]


def isfn(reg):
    if reg == "53":
        from pyModeS.decoder.bds import bds53
        return bds53.is53
    return getattr(getattr(pms.bds, "bds" + reg), "is" + reg)


def mkmsg(c):
    hd = (c.get("ctx_head", 0) & ~0x1FFF) | (c["ac"] & 0x1FFF)
    return frames.tohex(frames.commb(c["df"], c.get("ctx_addr", 0), c["mb"], hd), 112, c.get("hc", "U"))


# ------------------------------------------------------------------ content generators (construct, then classified by the reference rules)
def _tc(v, n):
    return v & ((1 << n) - 1)


@st.composite
def content(draw, reg):
    u = lambda a, b: draw(gen.uint(a, b))
    edge = lambda a, b, *e: draw(st.one_of(gen.uint(a, b), st.sampled_from(list(e) + [a, b])))
    mb = 0
    P = D.place
    if reg == "40":
        for stb, _, first, last in R.STATUS["40"]:
            if u(0, 3):
                mb = P(P(mb, stb, stb, 1), first, last, u(0, (1 << (last - first + 1)) - 1))
    elif reg == "50":
        gs = tas = None
        if u(0, 4):
            v = edge(-284, 284)
            mb = P(P(P(mb, 1, 1, 1), 2, 2, 1 if v < 0 else 0), 3, 11, _tc(v, 9))
        if u(0, 4):
            mb = P(P(P(mb, 12, 12, 1), 13, 13, u(0, 1)), 14, 23, u(0, 1023))
        if u(0, 4):
            gs = edge(0, 300, 299, 150)
            mb = P(P(mb, 24, 24, 1), 25, 34, gs)
        if u(0, 4):
            mb = P(P(P(mb, 35, 35, 1), 36, 36, u(0, 1)), 37, 45, u(0, 511))
        if u(0, 4):
            lo, hi = (0, 300) if gs is None else (max(0, gs - 100), min(300, gs + 100))
            tas = edge(lo, hi)
            mb = P(P(mb, 46, 46, 1), 47, 56, tas)
    elif reg == "53":
        for stb, sg, first, last in R.STATUS["53"]:
            if u(0, 4):
                mb = P(P(mb, stb, stb, 1), first, last, u(0, min(400, (1 << (last - first + 1)) - 1) if first in (14, 35) else (110 if first == 25 else (1 << (last - first + 1)) - 1)))
                if sg:
                    mb = P(mb, sg, sg, u(0, 1))
    elif reg == "60":
        if u(0, 4):
            mb = P(P(P(mb, 1, 1, 1), 2, 2, u(0, 1)), 3, 12, u(0, 1023))
        want_ias, want_mach = u(0, 4) > 0, u(0, 4) > 0
        mach_raw = edge(0, 250, 249, 120) if want_mach else None
        if want_mach:
            mb = P(P(mb, 24, 24, 1), 25, 34, mach_raw)
        if want_ias:
            mb = P(P(mb, 13, 13, 1), 14, 23, edge(0, 500, 499, 250))
        for stb, sg, first in ((35, 36, 37), (46, 47, 48)):
            if u(0, 4):
                v = edge(-187, 187)
                mb = P(P(P(mb, stb, stb, 1), sg, sg, 1 if v < 0 else 0), first, first + 8, _tc(v, 9))
    elif reg == "44":
        mb = P(mb, 1, 4, u(0, 4))
        if u(0, 4):
            mb = P(P(P(mb, 5, 5, 1), 6, 14, edge(0, 250, 249)), 15, 23, u(0, 511))
        v = edge(-320, 240)
        mb = P(P(mb, 24, 24, 1 if v < 0 else 0), 25, 34, _tc(v, 10))
        for stb, first, last in ((35, 36, 46), (47, 48, 49), (50, 51, 56)):
            if u(0, 3):
                mb = P(P(mb, stb, stb, 1), first, last, u(0, (1 << (last - first + 1)) - 1))
    elif reg == "45":
        for stb in (1, 4, 7, 10, 13):
            if u(0, 2):
                mb = P(P(mb, stb, stb, 1), stb + 1, stb + 2, u(0, 3))
        if u(0, 4):
            v = edge(-320, 240)
            mb = P(P(P(mb, 16, 16, 1), 17, 17, 1 if v < 0 else 0), 18, 26, _tc(v, 9))
        if u(0, 3):
            mb = P(P(mb, 27, 27, 1), 28, 38, u(0, 2047))
        if u(0, 3):
            mb = P(P(mb, 39, 39, 1), 40, 51, u(0, 4095))
    elif reg == "10":
        ovc = u(0, 1)
        mb = P(P(P(P(P(draw(gen.ubits(56)), 1, 8, 0x10), 10, 14, 0), 15, 15, ovc), 17, 23, edge(5, 127) if ovc else u(0, 4)), 9, 9, u(0, 1))
    elif reg == "17":
        mb = P(0, 1, 24, draw(gen.ubits(24)) | (1 << 17))
    elif reg == "20":
        mb = 0x20
        blank = u(0, 9) == 0
        for _ in range(8):
            mb = (mb << 6) | (0 if blank else draw(st.sampled_from(sorted(R.LEGAL_CHARS))))
    elif reg == "30":
        mb = P(P(P(draw(gen.ubits(56)), 1, 8, 0x30), 16, 22, u(0, 47)), 29, 30, u(0, 2))
    return mb


@st.composite
def carrier(draw, reg, mb):
    df = draw(st.sampled_from([20, 21]))
    ac = draw(gen.ubits(13))
    if reg == "60" and df == 20 and D.getbits(mb, 13, 13) and D.getbits(mb, 24, 24):
        how = draw(st.sampled_from(["derive", "derive", "derive_low", "noalt", "df21"]))
        if how == "df21":
            df = 21
        elif how == "noalt":
            ac = 0
        else:
            n = draw(st.one_of(gen.uint(0, 2040), gen.uint(1480, 2040), gen.uint(0, 60)))  # -1000 .. 50000 ft (below sea level and above the tropopause over-weighted)
            offs = [0, 1, -1, 10, -10, 16, -16, 17, -17]
            if how == "derive_low":  # below sea level the calibrated airspeed exceeds Mach x a0: the upper edge of the 20 kt rule at its extreme
                n = draw(gen.uint(0, 24))
                offs = [16, 17, 17]
                if D.getbits(mb, 25, 34) < 100:
                    mb = D.place(mb, 25, 34, draw(gen.uint(100, 250)))
            ac = gillham_q1(n)
            alt = n * 25 - 1000
            mach = D.getbits(mb, 25, 34) * 2.048 / 512
            cas = isa.mach2cas(mach, alt * isa.FT) / isa.KTS
            ias = int(round(cas)) + draw(st.sampled_from(offs))  # up to the 18 kt reference margin
            mb = D.place(mb, 14, 23, max(0, min(500, ias)))
    return {"reg": reg, "mb": mb, "df": df, "ac": ac, "ctx_head": draw(gen.ubits(27)), "ctx_addr": draw(gen.ubits(24)), "hc": draw(gen.hexcase)}


def gillham_q1(n):
    """13-bit AC code with M=0, Q=1 for altitude 25 n - 1000 ft (n: 11 bits)."""
    hi, mid, lo = n >> 5, (n >> 4) & 1, n & 15  # 6 bits | 1 bit | 4 bits around the M and Q positions
    return (hi << 7) | (0 << 6) | (mid << 5) | (1 << 4) | lo


@st.composite
def s_valid(draw):
    reg = draw(st.sampled_from(LABELS + MRAR + ["50", "60", "40"]))
    mb = draw(content(reg))
    return draw(carrier(reg, mb))


def label_in(res, reg):
    return isinstance(res, str) and ("BDS" + reg) in res.split(",")


def chk_valid(c, note):
    reg = c["reg"]
    v = R.verdict(reg, c["mb"], c["df"], c["ac"])
    note.cls("BDS%s-%s" % (reg, v))
    if v != "valid":
        return None  # generator miss (outside the envelope after clipping, or all-zero): counted by class, not judged
    msg = mkmsg(c)
    if c["ctx_head"] & 1:
        variants.prelude(pms, msg)  # the address of the reply is normally recovered first
    r = call(isfn(reg), msg)
    if r[0] != "ok" or r[1] is not True:
        return "is%s(%s) -> %r for a status-consistent, in-envelope BDS %s,%s content (MB %014X, DF%d, AC %s)" % (
            reg, msg, r, reg[0], reg[1], c["mb"], c["df"], format(c["ac"], "013b"))
    mrar = reg in MRAR
    for mr in ((True,) if mrar else (False, True)):
        r = call(pms.bds.infer, msg, mr)
        if r[0] != "ok" or not label_in(r[1], reg):
            return "infer(%s, mrar=%s) -> %r does not list BDS%s for a valid BDS %s,%s content" % (msg, mr, r, reg, reg[0], reg[1])
    note.nt(True)
    return None


# ------------------------------------------------------------------ soundness
@st.composite
def s_broken(draw):
    reg = draw(st.sampled_from(LABELS + MRAR + ["50", "60", "40", "45", "53"]))
    mb = draw(content(reg))
    kinds = []
    if reg in R.STATUS:
        kinds.append("status")
    if reg in R.RESERVED:
        kinds.append("reserved")
    if reg in ("10", "20", "30"):
        kinds.append("byte")
    if reg == "20":
        kinds.append("char")
    if reg == "44":
        kinds.append("source")
    kind = draw(st.sampled_from(kinds))
    if kind == "status":
        stb, sg, first, last = draw(st.sampled_from(R.STATUS[reg]))
        if D.getbits(mb, first, last) == 0:
            mb = D.place(mb, first, last, draw(gen.uint(1, (1 << (last - first + 1)) - 1)))
        mb = D.place(mb, stb, stb, 0)
    elif kind == "reserved":
        a, b = draw(st.sampled_from(R.RESERVED[reg]))
        k = draw(gen.uint(a, b))
        mb = D.place(mb, k, k, 1)
    elif kind == "byte":
        good = {"10": 0x10, "20": 0x20, "30": 0x30}[reg]
        mb = D.place(mb, 1, 8, draw(st.sampled_from([x for x in (0x00, 0x10, 0x20, 0x30, 0x11, 0x90, 0xFF, 0x40) if x != good])))
    elif kind == "char":
        k = draw(gen.uint(0, 7))
        bad = draw(st.sampled_from([c for c in range(64) if c not in R.LEGAL_CHARS and c != 0] + [0]))
        mb = D.place(mb, 9 + 6 * k, 14 + 6 * k, bad)
        if D.getbits(mb, 9, 56) == 0:
            mb = D.place(mb, 9, 14, 1)
    else:
        mb = D.place(mb, 1, 4, draw(gen.uint(5, 15)))
    c = draw(carrier(reg, mb))
    c["mb"] = mb if reg != "60" else c["mb"]
    c["kind"] = kind
    return c


def chk_broken(c, note):
    reg = c["reg"]
    v = R.verdict(reg, c["mb"], c["df"], c["ac"])
    note.cls("BDS%s-%s-%s" % (reg, c["kind"], v))
    if v != "broken":
        return None
    msg = mkmsg(c)
    r = call(isfn(reg), msg)
    if r[0] != "ok" or r[1] is not False:
        return "is%s(%s) -> %r although the payload violates a %s rule of BDS %s,%s (MB %014X)" % (reg, msg, r, c["kind"], reg[0], reg[1], c["mb"])
    for mr in (False, True):
        r = call(pms.bds.infer, msg, mr)
        if r[0] != "ok" or label_in(r[1], reg):
            return "infer(%s, mrar=%s) -> %r lists BDS%s although the payload violates a %s rule of that register" % (msg, mr, r, reg, c["kind"])
    note.nt(True)
    return None


# ------------------------------------------------------------------ totality + consistency
@st.composite
def s_any(draw):
    kind = draw(st.sampled_from(["df17", "commb", "commb", "any", "zero", "valid"]))
    if kind == "valid":
        c = draw(s_valid())
        return {"msg": mkmsg(c), "mrar": draw(st.booleans())}
    if kind == "df17":
        tc = draw(st.integers(0, 31))
        me = (tc << 51) | draw(gen.bits(51))
        v = frames.df17(draw(gen.ubits(24)), me, df=draw(st.sampled_from([17, 17, 17, 18])))
    elif kind == "commb":
        mb = draw(gen.bits(56))
        if draw(st.booleans()):  # status-biased: clear most status bits and the fields behind them
            for reg in ("40", "50", "60"):
                for stb, sg, first, last in R.STATUS[reg]:
                    if draw(gen.uint(0, 2)) == 0:
                        mb = D.place(D.place(mb, stb, stb, 0), first, last, 0)
        v = frames.commb(draw(st.sampled_from([20, 21])), draw(gen.ubits(24)), mb, draw(gen.ubits(27)))
    elif kind == "zero":
        v = frames.commb(draw(st.integers(0, 31)), draw(gen.ubits(24)), 0, draw(gen.ubits(27)))
    else:
        v = frames.raw(draw(st.integers(0, 31)), draw(gen.bits(83)), 112, draw(gen.ubits(24)))
    return {"msg": frames.tohex(v, 112, draw(gen.hexcase)), "mrar": draw(st.booleans())}


TCMAP = {**{t: "BDS08" for t in range(1, 5)}, **{t: "BDS06" for t in range(5, 9)}, **{t: "BDS05" for t in list(range(9, 19)) + [20, 21, 22]},
         19: "BDS09", 28: "BDS61", 29: "BDS62", 31: "BDS65"}


def chk_any(c, note):
    msg, mrar = c["msg"], c["mrar"]
    r = call(pms.bds.infer, msg, mrar)
    if r[0] != "ok" or not (r[1] is None or isinstance(r[1], str)):
        return "infer(%s, mrar=%s) -> %r; expected None or a string" % (msg, mrar, r)
    v = int(msg, 16)
    df = v >> 107
    mbz = (v >> 24) & ((1 << 56) - 1) == 0
    if mbz:
        note.cls("empty")
        if r[1] != "EMPTY":
            return "infer(%s) -> %r for an all-zero payload, expected 'EMPTY'" % (msg, r[1])
    elif df == 17:
        tc = (v >> 75) & 31
        if tc in TCMAP and r[1] != TCMAP[tc]:
            return "infer(%s) -> %r for DF17 TC%d, expected %s" % (msg, r[1], tc, TCMAP[tc])
        note.cls("df17")
    elif df in (20, 21):
        regs = LABELS + (MRAR if mrar else [])
        acc = []
        for reg in regs:
            rr = call(isfn(reg), msg)
            if rr[0] != "ok" or not isinstance(rr[1], bool):
                return "is%s(%s) -> %r; expected a bool" % (reg, msg, rr)
            if rr[1]:
                acc.append("BDS" + reg)
        exp = ",".join(sorted(acc)) if acc else None
        if r[1] != exp:
            return "infer(%s, mrar=%s) -> %r but the predicates accept %r" % (msg, mrar, r[1], exp)
        note.cls("commb-accepted-%d" % min(len(acc), 3))
        note.nt(bool(acc))
        return None
    note.nt(mbz or df == 17)
    return None


# ------------------------------------------------------------------ is50or60
@st.composite
def s_both(draw):
    """MB satisfying the BDS 5,0 and the BDS 6,0 layout at once (field ranges intersected by construction), or only one of them."""
    u = lambda a, b: draw(gen.uint(a, b))
    P = D.place
    mb = 0
    alt_ref = draw(st.one_of(gen.ufloat(0, 45000), gen.ufloat(36089, 45000), gen.ufloat(-1000, 50000), st.sampled_from([0.0, 35000.0, 45000.0]),
                             # small and negative reference altitudes (an airport below sea level, a pressure altitude on a high-pressure day), whole numbers as ints
                             st.sampled_from([-1.0, -1, 1, 0, -25.0, -100, -1000.0, 50000, 14000, -2.0, 1.0])))
    # bits 1-12: roll (1,2,3-11) == heading (1,2,3-12) ; bit 12 = track status
    if u(0, 5):
        v = u(-284, 284)
        mb = P(P(P(mb, 1, 1, 1), 2, 2, 1 if v < 0 else 0), 3, 11, _tc(v, 9))
    trk_status = u(0, 5) > 0
    if trk_status and D.getbits(mb, 1, 1) == 0:
        trk_status = False  # bit 12 is a heading magnitude bit: needs heading status
    mach_status = u(0, 5) > 0
    # (Mach numbers near zero and an indicated airspeed of exactly 0 kt - a stationary aircraft - are legal contents of both registers)
    mach_raw = (u(60, 250) if u(0, 4) else draw(st.sampled_from([1, 2, 3, 5, 7, 12, 30]))) if mach_status else 0
    if mach_status:
        mb = P(P(mb, 24, 24, 1), 25, 34, mach_raw)
    if trk_status:
        mb = P(mb, 12, 12, 1)
        ias_status = u(0, 5) > 0
        if ias_status:
            mode = draw(st.sampled_from(["consistent", "consistent", "free", "inconsistent"]))
            if mach_status and mode != "free":
                cas = isa.mach2cas(mach_raw * 2.048 / 512, alt_ref * isa.FT) / isa.KTS
                ias = int(round(cas)) + (draw(st.sampled_from([0, 3, -3, 15, -15, 18, -18])) if mode == "consistent" else draw(st.sampled_from([23, -23, 40, -40, 80])))
            else:
                ias = u(0, 500) if u(0, 5) else draw(st.sampled_from([0, 0, 1, 500]))
            if mach_status and mach_raw < 60 and u(0, 1):
                ias = draw(st.sampled_from([0, 0, 1, 2, 5]))
            mb = P(P(mb, 13, 13, 1), 14, 23, max(0, min(500, ias)))
    if u(0, 5):
        v = u(-187, 187)
        mb = P(P(P(mb, 35, 35, 1), 36, 36, 1 if v < 0 else 0), 37, 45, _tc(v, 9))
    if u(0, 5):
        gs = D.getbits(mb, 25, 34) if D.getbits(mb, 24, 24) else None
        lo, hi = (0, 187) if gs is None else (max(0, gs - 100), min(187, gs + 100))
        if lo <= hi:
            mb = P(P(mb, 46, 46, 1), 48, 56, u(lo, hi))
    spoil = draw(st.sampled_from(["none", "none", "none", "only50", "only60"]))
    if spoil == "only50":   # break a BDS 6,0 status rule that BDS 5,0 does not share: IAS status (bit 13 = track sign) cleared over IAS bits
        mb = P(P(P(P(mb, 1, 1, 1), 12, 12, 1), 13, 13, 0), 14, 23, u(1, 500))
    elif spoil == "only60":  # break a BDS 5,0 rule only: track status (bit 12) cleared over track bits while heading status is set
        mb = P(P(P(P(mb, 1, 1, 1), 12, 12, 0), 13, 13, 1), 14, 23, u(1, 500))
    return {"mb": mb, "spd_ref": draw(st.one_of(gen.ufloat(0, 600), gen.ufloat(0, 600), gen.ufloat(0, 15), st.sampled_from([0.0, 450.0, 0, 1.0]))), "trk_ref": draw(gen.ufloat(0, 360)), "alt_ref": alt_ref,
            "df": 21, "ac": 0, "ctx_head": draw(gen.ubits(27)), "ctx_addr": draw(gen.ubits(24)), "spoil": spoil, "hc": draw(gen.hexcase)}


def vxy(v, ang):
    return v * math.sin(math.radians(ang)), v * math.cos(math.radians(ang))


def chk_both(c, note):
    mb = c["mb"]
    msg = mkmsg(c)
    v50, v60 = R.verdict("50", mb, 21, 0), R.verdict("60", mb, 21, 0)
    r = call(pms.bds.is50or60, msg, c["spd_ref"], c["trk_ref"], c["alt_ref"])
    note.cls("50:%s/60:%s" % (v50, v60))
    if r[0] != "ok":
        return "is50or60(%s, %r, %r, %r) raised %r" % (msg, c["spd_ref"], c["trk_ref"], c["alt_ref"], r[1:])
    i50, i60 = pms.bds.bds50.is50(msg), pms.bds.bds60.is60(msg)
    if not (i50 and i60):
        if r[1] is not None:
            return "is50or60(%s, ...) -> %r although is50=%r, is60=%r" % (msg, r[1], i50, i60)
        if v50 == "valid" and v60 == "valid":
            return "payload %014X is a valid BDS 5,0 and BDS 6,0 content but is50=%r, is60=%r" % (mb, i50, i60)
        return None
    if v50 == "broken" or v60 == "broken":
        return "is50=%r is60=%r for payload %014X that breaks a status rule (5,0: %s, 6,0: %s)" % (i50, i60, mb, v50, v60)
    if r[1] not in ("BDS50", "BDS60", "BDS50,BDS60"):
        return "is50or60(%s, ...) -> %r; expected BDS50, BDS60 or BDS50,BDS60 when both layouts apply" % (msg, r[1])
    note.nt(True)
    g = D.getbits
    h60 = R.signed(mb, 2, 3, 12) * 90 / 512 % 360 if g(mb, 1, 1) else None
    i60v = g(mb, 14, 23) if g(mb, 13, 13) else None
    m60 = g(mb, 25, 34) * 2.048 / 512 if g(mb, 24, 24) else None
    h50 = R.signed(mb, 13, 14, 23) * 90 / 512 % 360 if g(mb, 12, 12) else None
    s50 = g(mb, 25, 34) * 2 if g(mb, 24, 24) else None
    h = c["alt_ref"] * isa.FT
    if m60 is not None and i60v is not None:
        d = abs(i60v - isa.mach2cas(m60, h) / isa.KTS)
        if d > 20.5:
            return None if r[1] == "BDS50" else "is50or60(%s, alt_ref=%r) -> %r although IAS %d kt and Mach %.3f are inconsistent by %.1f kt (expected BDS50)" % (
                msg, c["alt_ref"], r[1], i60v, m60, d)
        if d > 19.5:
            note.cls("ambiguous-ias-mach")
            return None
    missing = h60 is None or (m60 is None and i60v is None) or h50 is None or s50 is None
    if missing:
        if r[1] != "BDS50,BDS60":
            return "is50or60(%s, ...) -> %r although a field needed for the comparison is unavailable (expected BDS50,BDS60)" % (msg, r[1])
        note.cls("undecidable")
        return None
    if r[1] == "BDS50,BDS60":
        return "is50or60(%s, ...) -> 'BDS50,BDS60' although heading, speed and track are all available" % msg
    ref = vxy(c["spd_ref"] * isa.KTS, c["trk_ref"])
    d50 = math.dist(vxy(s50 * isa.KTS, h50), ref)
    d60s = []
    if m60 is not None:
        d60s.append(math.dist(vxy(isa.mach2tas(m60, h), h60), ref))
    if i60v is not None:
        d60s.append(math.dist(vxy(isa.cas2tas(i60v * isa.KTS, h), h60), ref))
    d60 = min(d60s)
    if abs(d50 - d60) <= 1.0:
        note.cls("ambiguous-distance")
        return None
    exp = "BDS50" if d50 < d60 else "BDS60"
    if r[1] != exp:
        return "is50or60(%s, spd=%r, trk=%r, alt=%r) -> %r; BDS 5,0 vector is %.1f m/s and BDS 6,0 vector %.1f m/s from the reference (expected %s)" % (
            msg, c["spd_ref"], c["trk_ref"], c["alt_ref"], r[1], d50, d60, exp)
    note.cls("decided-" + exp)
    return None


# ------------------------------------------------------------------ neighbour scans in opposite orders (no reference involved)
def make_scan(rng):
    """BDS 6,0 on DF20: the IAS/Mach consistency rule compares the indicated airspeed with the airspeed the Mach number gives at the frame's
    own altitude, so along a scan of the altitude code in 25-ft steps (or of the Mach / IAS field in single counts) the right answer of
    is60 / infer changes somewhere.  The same calls are made in opposite orders by two fresh copies of the package."""
    P = D.place
    kind = rng.choice(["altitude", "altitude", "mach", "ias", "ref_speed", "ref_alt"])
    mach_raw = rng.randint(90, 245)
    n0 = rng.randint(80, 1950)
    cas = isa.mach2cas(mach_raw * 2.048 / 512, (n0 * 25 - 1000) * isa.FT) / isa.KTS
    ias = max(1, min(500, int(round(cas)) + rng.choice([20, -20, 19, -19, 21, -21])))
    mb = P(P(P(P(0, 13, 13, 1), 14, 23, ias), 24, 24, 1), 25, 34, mach_raw)
    addr, head = rng.getrandbits(24), rng.getrandbits(27) & ~0x1FFF
    hc = rng.choice("UL")

    def msg(mb_, n):
        return frames.tohex(frames.commb(20, addr, mb_, head | gillham_q1(n)), 112, hc)
    fns = rng.choice([["decoder.bds.bds60.is60"], ["decoder.bds.bds60.is60", "decoder.bds.infer"], ["decoder.bds.infer"]])
    jobs = []
    if kind == "altitude":
        for n in range(max(0, n0 - 60), min(2040, n0 + 60) + 1):
            jobs += [(f, (msg(mb, n),)) for f in fns]
    elif kind == "mach":
        for m in range(max(1, mach_raw - 25), min(250, mach_raw + 25) + 1):
            jobs += [(f, (msg(P(mb, 25, 34, m), n0),)) for f in fns]
    elif kind == "ias":
        for v in range(max(1, ias - 30), min(500, ias + 30) + 1):
            jobs += [(f, (msg(P(mb, 14, 23, v), n0),)) for f in fns]
    else:
        # a payload that satisfies the BDS 5,0 and the BDS 6,0 layout at once, and a reference that moves in small steps between the two interpretations
        mb2 = P(P(P(P(P(P(P(0, 1, 1, 1), 3, 11, rng.randint(0, 200)), 12, 12, 1), 13, 13, 1), 14, 23, rng.randint(150, 450)), 24, 24, 1), 25, 34, rng.randint(100, 230))
        m2 = frames.tohex(frames.commb(21, addr, mb2, head), 112, hc)
        trk = rng.uniform(0, 360)
        if kind == "ref_speed":
            s0 = rng.uniform(100, 500)
            for k in range(-60, 61):
                jobs.append(("decoder.bds.is50or60", (m2, s0 + k * rng.choice([1.0, 0.25]), trk, 30000.0)))
        else:
            a0 = rng.uniform(2000, 44000)
            for k in range(-60, 61):
                jobs.append(("decoder.bds.is50or60", (m2, 380.0, trk, a0 + 25.0 * k)))
    return "bds60-" + kind, jobs


def enum_corpus(ctx):
    from vlib import corpus
    idx = 0
    for df in (20, 21):
        n = len(corpus.commb(df))
        for start in range(0, n, 100):
            idx += 1
            if ctx.mine(idx):
                yield {"df": df, "start": start}


def chk_corpus(case, note):
    """real DF20/21 replies: the reference verdicts (valid -> accepted, broken -> rejected) and relation 2 on a real-world distribution"""
    from vlib import corpus
    seen = set()
    for m, _icao in corpus.commb(case["df"])[case["start"]:case["start"] + 100]:
        v = int(m, 16)
        mb = (v >> 24) & ((1 << 56) - 1)
        ac = (v >> 80) & 0x1FFF
        for mr in (False, True):
            p = chk_any({"msg": m, "mrar": mr}, type(note)())
            if p:
                return p
        for reg in LABELS + MRAR:
            verdict = R.verdict(reg, mb, case["df"], ac)
            r = call(isfn(reg), m)
            if verdict == "valid" and r != ("ok", True):
                return "is%s(%s) -> %r for a real reply whose payload is a valid in-envelope BDS %s,%s content" % (reg, m, r, reg[0], reg[1])
            if verdict == "broken" and r != ("ok", False):
                return "is%s(%s) -> %r for a real reply whose payload breaks a status/reserved rule of BDS %s,%s" % (reg, m, r, reg[0], reg[1])
            if verdict == "valid":
                seen.add(reg)
    note.evals = 100 * 11
    for reg in sorted(seen):
        note.cls("real-valid-BDS" + reg)
    note.nt(bool(seen))
    return None


LEGS = [
    variants.scan_order_leg(make_scan, quick=96, thorough=4000, doc="BDS 6,0 / is50or60 neighbour scans (altitude code in 25-ft steps, Mach and IAS in single counts, reference speed and altitude in small steps) "
                            "made in opposite orders by two fresh copies of the package: each call's outcome must not depend on the calls before it"),
    Leg("corpus", chk_corpus, enum=enum_corpus, exhaustive=True, doc="10 000 real DF20/21 replies: reference verdicts vs the predicates, infer consistency"),
    Leg("totality_consistency", chk_any, strategy=s_any, quick=16000, thorough=450000, doc="relations 1 and 2"),
    Leg("completeness", chk_valid, strategy=s_valid, quick=16000, thorough=450000, doc="relation 3: valid in-envelope register contents are accepted and listed"),
    Leg("soundness", chk_broken, strategy=s_broken, quick=12000, thorough=300000, doc="relation 4: one broken status/reserved/format rule -> rejected"),
    Leg("is50or60", chk_both, strategy=s_both, quick=12000, thorough=300000, doc="relation 5: arbitration between BDS 5,0 and 6,0"),
]
