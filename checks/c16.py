"""C16 - Stream framing is independent of how the byte stream is chunked."""
import itertools

from hypothesis import strategies as st

from vlib import variants
variants.fake_rtlsdr()   # before the reader module is imported

import pyModeS as pms  # noqa: E402
from pyModeS.extra.tcpclient import TcpClient  # noqa: E402
from pyModeS.streamer.source import NetSource, RtlSdrSource  # noqa: E402
from vlib import gen  # noqa: E402
from vlib.core import Leg, call

PROPERTY = "C16"
RULE = ("streams of 1-8 frames. Beast: types '1' Mode-AC, '2' short, '3' long, '4' status, every timestamp/signal/message byte free with 0x1A forced "
        "(p=0.3 per field, single, double and triple runs, first/middle/last byte), escaped per the format, followed by one extra frame start; AVR raw: "
        "'*hex;' upper/lower/mixed with LF, CRLF or no separator; Skysense: 24-byte records, payload/timestamp/level bytes free (0x24 forced). "
        "Segmentations: whole stream, every single cut (exhaustive), all 1-byte pieces, Hypothesis-drawn multi-cuts, every pair of cuts (thorough). "
        "Driver: client.buffer.extend(chunk) then the reader, as run() does. Oracle: expected list computed from the generating frames and the documented "
        "DF/length admission; after every read the output so far is a prefix of it, contains every admissible frame whose successor start has been "
        "delivered, and equals it at the end; both Beast readers. NetSource.handle_messages with a stub pipe: everything sent + local buffers == long "
        "DF17/18 resp. DF20/21 messages handed in, in order, once. non-trivial = a cut strictly inside a frame (Beast: adjacent to / inside an escaped pair)"
        ' Also: reader output fed to NetSource under several segmentations with frames repeated back to back (leg pipeline), TcpClient.run() itself on a scripted socket with receive timeouts between pieces, reads of at most 4096 bytes, streams of up to ~20 KiB that end exactly on a full-size read, and a 1-9 byte piece cut out at every position (leg run_loop), stretches of 200-12000 Comm-B messages and duplicates with equal time stamps and time stamps that start at 0 / 0.0, wrap at midnight, run backwards or are arbitrary in the NetSource / RtlSdrSource leg, a libFuzzer campaign in the thorough tier.')
ASSUMPTIONS = ["wall-clock timestamps attached by the Beast/raw readers are ignored; Skysense timestamps are compared with the record's own field",
               "a Beast frame counts as completely received once the next <esc> and its type byte have been delivered",
               "the zmq socket is not involved: the harness owns the chunking"]

ESC = 0x1A
BLEN = {1: 2, 2: 7, 3: 14, 4: 14}


def mk_client(fmt):
    c = TcpClient("localhost", 0, {"beast": "beast", "beast_rssi": "beast", "raw": "raw", "skysense": "skysense"}[fmt])
    return c


def read(c, fmt):
    if fmt == "beast":
        r = c.read_beast_buffer()
        return [m[0] for m in r or []]
    if fmt == "beast_rssi":
        r = c.read_beast_buffer_rssi_piaware()
        return [m[0] for m in r or []]
    if fmt == "raw":
        r = c.read_raw_buffer()
        return [m[0] for m in r or []]
    r = c.read_skysense_buffer()
    return [(m[0], round(m[1], 9)) for m in r or []]


# ------------------------------------------------------------------ serialisers / expected lists (from the generating frames)
def beast_stream(frames):
    out, starts = [], []
    for typ, body in frames:
        starts.append(len(out))
        out += [ESC, 0x30 + typ]
        for b in body:
            out += [b, b] if b == ESC else [b]
    starts.append(len(out))
    out += [ESC, 0x33]  # next frame start: completes the last real frame
    exp = []
    for typ, body in frames:
        if typ not in (2, 3):
            exp.append(None)
            continue
        msg = "".join("%02X" % b for b in body[7:])
        df = min(body[7] >> 3, 24)
        if (df in (0, 4, 5, 11) and len(msg) != 14) or (df in (16, 17, 18, 19, 20, 21, 24) and len(msg) != 28):
            exp.append(None)
        else:
            exp.append(msg)
    # a frame is complete once the successor's <esc> + type byte are in: offset starts[k+1] + 2
    done_at = [starts[k + 1] + 2 for k in range(len(frames))]
    return out, exp, done_at


def raw_stream(frames):
    out, exp, done_at = [], [], []
    for hexs, sep in frames:
        out += [42] + [ord(ch) for ch in hexs] + [59]
        done_at.append(len(out))
        out += [ord(ch) for ch in sep]
        exp.append(hexs)
    return out, exp, done_at


def sky_stream(frames):
    out, exp, done_at = [], [], []
    for rec in frames:
        out += [0x24] + rec
        payload = rec[:14] if rec[0] >> 7 else rec[:7]
        ts = rec[14:20]
        sec = ((ts[0] & 0x7F) << 10) | (ts[1] << 2) | (ts[2] >> 6)
        nano = ((ts[2] & 0x3F) << 24) | (ts[3] << 16) | (ts[4] << 8) | ts[5]
        exp.append(("".join("%02X" % b for b in payload), round(sec + nano * 1.0e-9, 9)))
        done_at.append(len(out) + 1)
    out += [0x24]
    return out, exp, done_at


def build(case):
    fmt = case["fmt"]
    if fmt in ("beast", "beast_rssi"):
        return beast_stream([(t, b) for t, b in case["frames"]])
    if fmt == "raw":
        return raw_stream(case["frames"])
    return sky_stream(case["frames"])


# ------------------------------------------------------------------ generators
def _with_esc(draw, n, byte, p_num=3):
    """n free bytes with `byte` forced in with probability 0.3: single / runs of 2-3 at first, middle or last position."""
    v = list(draw(gen.ubits(8 * n)).to_bytes(n, "big"))
    if draw(gen.uint(0, 9)) < p_num:
        run = min(n, draw(st.sampled_from([1, 1, 2, 3])))
        pos = draw(st.sampled_from([0, max(0, (n - run) // 2), n - run]))
        for k in range(run):
            v[pos + k] = byte
    return v


@st.composite
def beast_frame(draw):
    typ = draw(st.sampled_from([1, 2, 2, 3, 3, 3, 4]))
    ts = _with_esc(draw, 6, ESC)
    sig = [ESC] if draw(gen.uint(0, 9)) < 2 else [draw(st.one_of(gen.uint(0, 255), st.sampled_from([0, 255])))]
    msg = _with_esc(draw, BLEN[typ], ESC)
    if typ == 2 and draw(gen.uint(0, 9)) < 7:
        msg[0] = (draw(st.sampled_from([0, 4, 5, 11])) << 3) | (msg[0] & 7)
    if typ == 3 and draw(gen.uint(0, 9)) < 7:
        msg[0] = (draw(st.sampled_from([16, 17, 18, 20, 21])) << 3) | (msg[0] & 7)
    return [typ, ts + sig + msg]


@st.composite
def raw_frame(draw):
    n = draw(st.sampled_from([14, 28]))
    h = "%0*X" % (n, draw(gen.ubits(4 * n)))
    hc = draw(st.sampled_from("ULM"))
    if hc == "L":
        h = h.lower()
    elif hc == "M":
        h = "".join(ch.lower() if i % 3 == 0 else ch for i, ch in enumerate(h))
    return [h, draw(st.sampled_from(["\n", "\r\n", "", "\n"]))]


@st.composite
def sky_frame(draw):
    return _with_esc(draw, 14, 0x24) + _with_esc(draw, 6, 0x24) + _with_esc(draw, 3, 0x24)


@st.composite
def s_stream(draw):
    fmt = draw(st.sampled_from(["beast", "beast", "beast_rssi", "raw", "skysense"]))
    fs = {"beast": beast_frame, "beast_rssi": beast_frame, "raw": raw_frame, "skysense": sky_frame}[fmt]
    frames = draw(st.lists(fs(), min_size=1, max_size=8))
    cuts = draw(st.lists(gen.uint(0, 10 ** 6), min_size=0, max_size=12))
    return {"fmt": fmt, "frames": frames, "cuts": cuts}


# ------------------------------------------------------------------ oracle
def run_segmentation(case, stream, exp, done_at, cuts):
    """Deliver stream in the pieces given by sorted cut offsets; returns problem or None."""
    fmt = case["fmt"]
    c = mk_client(fmt)
    want = [m for m in exp if m is not None]
    got = []
    pos = 0
    bounds = sorted(set(x for x in cuts if 0 < x < len(stream))) + [len(stream)]
    for b in bounds:
        chunk = stream[pos:b]
        pos = b
        c.buffer.extend(chunk)
        r = call(read, c, fmt)
        if r[0] != "ok":
            return "reader raised %r after delivering %d of %d bytes (cuts %r)" % (r[1:], pos, len(stream), bounds[:-1])
        got += r[1]
        if got != want[: len(got)]:
            return "after %d of %d bytes (cuts %r) the reader has produced %r, which is not a prefix of the transmitted frames %r" % (
                pos, len(stream), bounds[:-1], got, want)
        must = sum(1 for k, m in enumerate(exp) if m is not None and done_at[k] <= pos)
        if len(got) < must:
            return "after %d of %d bytes (cuts %r) %d admissible frame(s) are completely received but only %d were produced: %r" % (
                pos, len(stream), bounds[:-1], must, len(got), got)
    if got != want:
        return "whole stream delivered (cuts %r): produced %r, transmitted %r" % (bounds[:-1], got, want)
    return None


def inside_frame_cut(case, stream, cut):
    return True


def chk_stream(case, note, double=False):
    stream, exp, done_at = build(case)
    n = len(stream)
    p = run_segmentation(case, stream, exp, done_at, [])
    if p:
        return "[%s] %s" % (case["fmt"], p)
    evals = 1
    for cut in range(1, n):
        p = run_segmentation(case, stream, exp, done_at, [cut])
        evals += 1
        if p:
            return "[%s] %s" % (case["fmt"], p)
    p = run_segmentation(case, stream, exp, done_at, list(range(1, n)))
    if p:
        return "[%s] 1-byte pieces: %s" % (case["fmt"], p)
    if case["cuts"]:
        p = run_segmentation(case, stream, exp, done_at, [1 + x % max(1, n - 1) for x in case["cuts"]])
        evals += 1
        if p:
            return "[%s] %s" % (case["fmt"], p)
    if double and n <= 160:
        for a, b in itertools.combinations(range(1, n), 2):
            p = run_segmentation(case, stream, exp, done_at, [a, b])
            evals += 1
            if p:
                return "[%s] %s" % (case["fmt"], p)
    note.evals = evals + 1
    esc = ESC if case["fmt"].startswith("beast") else None
    note.cls(case["fmt"], "frames%d" % len(case["frames"]))
    if esc is not None and any(stream[i] == ESC and stream[i + 1] == ESC for i in range(n - 1)):
        note.cls("escaped-0x1A")
    note.nt(n > 2, key=[case["fmt"], case["frames"]])
    return None


def chk_stream_double(case, note):
    return chk_stream(case, note, double=True)


@st.composite
def s_small(draw):
    fmt = draw(st.sampled_from(["beast", "beast_rssi", "raw", "skysense"]))
    fs = {"beast": beast_frame, "beast_rssi": beast_frame, "raw": raw_frame, "skysense": sky_frame}[fmt]
    return {"fmt": fmt, "frames": draw(st.lists(fs(), min_size=1, max_size=3)), "cuts": []}


# ------------------------------------------------------------------ NetSource forwarding
class _Flag:
    value = False


class _Pipe:
    def __init__(self):
        self.sent = []

    def send(self, obj):
        self.sent.append({k: list(v) for k, v in obj.items()})


@st.composite
def s_net(draw):
    def one():
        kind = draw(st.sampled_from(["adsb", "adsb", "commb", "short", "otherlong"]))
        if kind == "short":
            return "%014X" % draw(gen.ubits(56))
        df = {"adsb": draw(st.sampled_from([17, 18])), "commb": draw(st.sampled_from([20, 21])), "otherlong": draw(st.sampled_from([16, 19, 22, 24, 31]))}[kind]
        return "%028X" % ((df << 107) | draw(gen.ubits(107)))
    batches = draw(st.lists(st.lists(st.builds(one), min_size=0, max_size=6), min_size=1, max_size=8))
    # consecutive bit-identical messages (a transponder repeats itself) and long stretches of Comm-B traffic between two squitters
    dup = draw(gen.uint(0, 3)) == 0
    bulk = draw(st.sampled_from([0] * 12 + [200, 600, 1500] * 2 + [12000]))
    return {"batches": batches, "hc": draw(gen.hexcase), "source": draw(st.sampled_from(["net", "net", "rtl"])), "dup": dup, "same_ts": draw(st.booleans()),
            "bulk": bulk, "bulk_at": draw(gen.uint(0, 7)), "ctx_bulkseed": draw(gen.ubits(32)),
            # the time stamps the reader attached: wall clock (increasing), or Skysense seconds of the UTC day: starting at 0 / 0.0, wrapping at midnight;
            # a clock stepped backwards; arbitrary.  The source forwards in the order handed in, whatever the stamps say.
            "ts_mode": draw(st.sampled_from(["inc", "inc", "inc", "dec", "rand", "from0", "from0f", "midnight"]))}


def stamp(case, t):
    mode = case.get("ts_mode", "inc")
    if mode == "dec":
        return 10 ** 6 - t
    if mode == "rand":
        return gen.spread(case["ctx_bulkseed"] + t, 20) / 8.0
    if mode == "from0":
        return t - 1
    if mode == "from0f":
        return (t - 1) * 0.5
    if mode == "midnight":
        return (86395 + t * 3) % 86400 + (0.25 if t % 2 else 0.0)
    return t


def chk_net(case, note):
    if case.get("source", "net") == "rtl":  # the RTL-SDR source has its own copy of the batching code; built without hardware
        src = RtlSdrSource()   # the real constructor, with a stand-in for the missing rtlsdr module
    else:
        src = NetSource("localhost", 0, "beast")
    src.stop_flag = _Flag()
    src.raw_pipe_in = _Pipe()
    t = 0
    fed_a, fed_c = [], []
    batches = [list(b) for b in case["batches"]]
    if case.get("dup"):
        batches = [[m for m in b for _ in (0, 1)] for b in batches]
    if case.get("bulk"):
        k = case["bulk_at"] % len(batches)
        batches[k] = batches[k] + ["%028X" % ((20 << 107) | gen.spread(case["ctx_bulkseed"] + j, 107)) for j in range(case["bulk"])]
    batches = batches + [["8D" + "0" * 26, "8D" + "1" * 26]]
    for b in batches:
        msgs = []
        prev = None
        for m in b:
            if case["hc"] == "L":
                m = m.lower()
            if not (case.get("same_ts") and m == prev):  # one read may stamp several frames with the same time
                t += 1
            prev = m
            t_ = stamp(case, t)
            msgs.append([m, t_])
            if len(m) == 28 and (int(m[:2], 16) >> 3) in (17, 18):
                fed_a.append((m, t_))
            elif len(m) == 28 and (int(m[:2], 16) >> 3) in (20, 21):
                fed_c.append((m, t_))
        r = call(src.handle_messages, msgs)
        if r[0] != "ok":
            return "%s.handle_messages(%r) raised %r" % (type(src).__name__, msgs, r[1:])
        out_a, out_c = [], []
        for s in src.raw_pipe_in.sent:
            if len(s["adsb_ts"]) != len(s["adsb_msg"]) or len(s["commb_ts"]) != len(s["commb_msg"]):
                return "message/timestamp lists of different length sent: %r" % s
            out_a += list(zip(s["adsb_msg"], s["adsb_ts"]))
            out_c += list(zip(s["commb_msg"], s["commb_ts"]))
        out_a += list(zip(src.local_buffer_adsb_msg, src.local_buffer_adsb_ts))
        out_c += list(zip(src.local_buffer_commb_msg, src.local_buffer_commb_ts))
        if out_a != fed_a or out_c != fed_c:
            if len(fed_c) + len(fed_a) > 60:
                return "after %d batches (%d long DF17/18 and %d long DF20/21 messages handed in, the largest batch %d messages): forwarded+buffered %d ADS-B / %d Comm-B; first Comm-B kept %r, first handed in %r" % (
                    len(batches), len(fed_a), len(fed_c), max(len(b_) for b_ in batches), len(out_a), len(out_c), out_c[:1], fed_c[:1])
            return "after batches %r: forwarded+buffered ADS-B %r / Comm-B %r, handed in %r / %r" % (batches, out_a, out_c, fed_a, fed_c)
    if src.local_buffer_adsb_msg or src.local_buffer_commb_msg:
        return "after a final batch with two ADS-B messages %r / %r remain buffered" % (src.local_buffer_adsb_msg, src.local_buffer_commb_msg)
    note.cls(type(src).__name__)
    if case.get("bulk"):
        note.cls("bulk-commb-%d" % case["bulk"])
    if case.get("dup"):
        note.cls("consecutive-duplicates")
    note.cls("stamps-" + case.get("ts_mode", "inc"))
    note.nt(len(fed_a) > 2 and len(fed_c) > 0)
    return None


# ------------------------------------------------------------------ coverage-guided campaign (thorough tier)
def fuzz_decode(fdp):
    fmt = ["beast", "beast_rssi", "raw", "skysense"][fdp.ConsumeIntInRange(0, 3)]
    nfr = fdp.ConsumeIntInRange(1, 4)
    frames_ = []
    for _ in range(nfr):
        if fmt.startswith("beast"):
            typ = fdp.ConsumeIntInRange(1, 4)
            body = list(fdp.ConsumeBytes(7 + BLEN[typ]))
            body += [ESC] * (7 + BLEN[typ] - len(body))  # short input: pad with escape bytes, the interesting value
            frames_.append([typ, body])
        elif fmt == "raw":
            n = 14 if fdp.ConsumeBool() else 28
            b = fdp.ConsumeBytes(n // 2)
            h = (b.hex() + "0" * n)[:n]
            frames_.append([h.upper() if fdp.ConsumeBool() else h, ["\n", "\r\n", ""][fdp.ConsumeIntInRange(0, 2)]])
        else:
            rec = list(fdp.ConsumeBytes(23))
            frames_.append(rec + [0x24] * (23 - len(rec)))
    cuts = [fdp.ConsumeIntInRange(0, 400) for _ in range(fdp.ConsumeIntInRange(0, 6))]
    return {"fmt": fmt, "frames": frames_, "cuts": cuts}


def fuzz_check(case, note):
    stream, exp, done_at = build(case)
    p = run_segmentation(case, stream, exp, done_at, [])
    if p is None and case["cuts"]:
        p = run_segmentation(case, stream, exp, done_at, [1 + x % max(1, len(stream) - 1) for x in case["cuts"]])
    return "[%s] %s" % (case["fmt"], p) if p else None


def enum_atheris(ctx):
    from vlib import fuzzleg
    yield from fuzzleg.campaign("c16", ctx, runs_quick=0, runs_thorough=600000, shards=4, max_len=160)


def chk_atheris(case, note):
    from vlib import fuzzleg
    return fuzzleg.judge(case, note, fuzz_check)


# ------------------------------------------------------------------ the real run() loop on a scripted socket (pieces and receive timeouts)
class _Stop(Exception):
    pass


class _Sock:
    def __init__(self, script):
        self.script = list(script)

    def recv(self, n):
        import zmq
        if not self.script:
            raise _Stop()
        x = self.script.pop(0)
        if x is None:
            raise zmq.error.Again()
        if len(x) > n:   # a socket hands over at most n bytes per call; the rest stays queued
            self.script.insert(0, x[n:])
            x = x[:n]
        return bytes(x)

    def close(self):
        pass


class _Client(TcpClient):
    def connect(self):
        self.socket = _Sock(self.script)

    def handle_messages(self, messages):
        self.got.extend(messages)


@st.composite
def s_runloop(draw):
    fmt = draw(st.sampled_from(["beast", "beast", "raw", "skysense"]))
    fs = {"beast": beast_frame, "raw": raw_frame, "skysense": sky_frame}[fmt]
    return {"fmt": fmt, "frames": draw(st.lists(fs(), min_size=1, max_size=6)), "cuts": draw(st.lists(gen.uint(0, 10 ** 6), min_size=0, max_size=10)),
            "timeouts": draw(st.lists(gen.uint(0, 12), min_size=0, max_size=5)),
            # a busy feed: the same frames over and over, many kilobytes, so that full-size reads arrive while a frame is unfinished
            "repeat": draw(st.sampled_from([1, 1, 1, 1, 30, 90, 250]))}


def chk_runloop(case, note):
    fmt = case["fmt"]
    stream, exp, done_at = build(dict(case, frames=list(case["frames"]) * case.get("repeat", 1)))
    want = [m for m in exp if m is not None]
    n = len(stream)
    variants = [[], [1 + x % max(1, n - 1) for x in case["cuts"]]] + [[c] for c in range(1, n, max(1, n // (16 if n < 5000 else 5)))]
    if n < 400:
        # a short piece of 1-9 bytes cut out at every position (two cuts), its length varying with the position and the case
        salt = sum(case["cuts"][:2]) if case["cuts"] else len(case["frames"])
        variants += [[c, c + 1 + (c * 7 + salt) % 9] for c in range(1, n - 1)]
    if n > 4096:
        # the stream ends exactly on a full-size read; and on two of them
        variants += [[n - 4096], [n - 8192, n - 4096] if n > 8192 else [n - 4096, n - 1]]
    for cuts in variants:
        bounds = sorted(set(x for x in cuts if 0 < x < n)) + [n]
        script, pos = [], 0
        for k, b in enumerate(bounds):
            script.append(stream[pos:b])
            pos = b
            if k in case["timeouts"]:
                script.append(None)  # the socket times out between two pieces (zmq.error.Again)
        cl = _Client("localhost", 0, fmt)
        cl.script, cl.got = script, []
        try:
            cl.run()
            return "[%s] run() returned although the socket never closed" % fmt
        except _Stop:
            pass
        except Exception as e:  # noqa
            return "[%s] run() raised %s: %s (cuts %r, timeouts after pieces %r)" % (fmt, type(e).__name__, e, bounds[:-1][:6], case["timeouts"])
        got = [(m[0], round(m[1], 9)) for m in cl.got] if fmt == "skysense" else [m[0] for m in cl.got]
        if got != want:
            if len(want) > 40:
                k = next((i for i, (a, b) in enumerate(zip(got, want)) if a != b), min(len(got), len(want)))
                return "[%s] run() on a stream of %d bytes (cuts %r, reads of at most 4096 bytes): %d messages handed over, %d transmitted; first difference at message %d: %r vs %r" % (
                    fmt, n, bounds[:-1][:6], len(got), len(want), k, got[k:k + 1], want[k:k + 1])
            return "[%s] run() with cuts %r and receive timeouts after pieces %r handed %r to handle_messages, transmitted %r" % (
                fmt, bounds[:-1][:6], case["timeouts"], got, want)
    note.evals = len(variants)
    note.cls("run-" + fmt)
    if case["timeouts"]:
        note.cls("with-timeouts")
    if n > 4096:
        note.cls("stream-longer-than-one-read")
    note.nt(n > 2 and bool(case["timeouts"]), key=[fmt, case["frames"], case["timeouts"]])
    return None


# ------------------------------------------------------------------ reader + NetSource end to end (as run() wires them)
@st.composite
def s_pipeline(draw):
    fmt = draw(st.sampled_from(["beast", "beast", "raw"]))
    fs = {"beast": beast_frame, "raw": raw_frame}[fmt]
    base = draw(st.lists(fs(), min_size=2, max_size=8))
    frames_ = []
    for f in base:
        if fmt == "beast" and draw(gen.uint(0, 2)) > 0:  # mostly long DF17/18/20/21 frames, which the source forwards
            f = [3, f[1][:7] + [(draw(st.sampled_from([17, 18, 20, 21])) << 3) | (f[1][7] & 7)] + (f[1][8:] + [0] * 14)[:13]]
        elif fmt == "raw" and draw(gen.uint(0, 2)) > 0:
            f = ["%028X" % ((draw(st.sampled_from([17, 18, 20, 21])) << 107) | draw(gen.ubits(107))), f[1]]
        frames_.append(f)
        if draw(gen.uint(0, 3)) == 0:
            frames_.append(f)  # the same frame transmitted twice in a row
    return {"fmt": fmt, "frames": frames_, "cuts": draw(st.lists(gen.uint(0, 10 ** 6), min_size=0, max_size=10))}


def chk_pipeline(case, note):
    fmt = case["fmt"]
    stream, exp, done_at = build(case)
    want = [m for m in exp if m is not None and len(m) == 28 and (int(m[:2], 16) >> 3) in (17, 18, 20, 21)]
    n = len(stream)
    segs = [[], list(range(1, n)), [1 + x % max(1, n - 1) for x in case["cuts"]]] + [[c] for c in range(1, n, max(1, n // 24))]
    for cuts in segs:
        src = NetSource("localhost", 0, "beast" if fmt == "beast" else "raw")
        src.stop_flag = _Flag()
        src.raw_pipe_in = _Pipe()
        pos = 0
        for b in sorted(set(x for x in cuts if 0 < x < n)) + [n]:
            src.buffer.extend(stream[pos:b])
            pos = b
            r = call(src.read_beast_buffer if fmt == "beast" else src.read_raw_buffer)
            if r[0] != "ok":
                return "[%s] reader raised %r (cuts %r)" % (fmt, r[1:], cuts[:6])
            if r[1]:
                h = call(src.handle_messages, r[1])
                if h[0] != "ok":
                    return "[%s] NetSource.handle_messages raised %r" % (fmt, h[1:])
        got = []
        for sent in src.raw_pipe_in.sent:
            got.append(sorted(zip(sent["adsb_ts"] + sent["commb_ts"], range(10 ** 6), sent["adsb_msg"] + sent["commb_msg"])))
        fa = [m for sent in src.raw_pipe_in.sent for m in sent["adsb_msg"]] + list(src.local_buffer_adsb_msg)
        fc = [m for sent in src.raw_pipe_in.sent for m in sent["commb_msg"]] + list(src.local_buffer_commb_msg)
        wa = [m for m in want if (int(m[:2], 16) >> 3) in (17, 18)]
        wc = [m for m in want if (int(m[:2], 16) >> 3) in (20, 21)]
        if [m.upper() for m in fa] != [m.upper() for m in wa] or [m.upper() for m in fc] != [m.upper() for m in wc]:
            return "[%s] cuts %r: forwarded+buffered ADS-B %r / Comm-B %r, transmitted %r / %r" % (fmt, cuts[:6], fa, fc, wa, wc)
    note.evals = len(segs)
    note.cls("pipeline-" + fmt)
    dups = any(a == b for a, b in zip(want, want[1:]))
    if dups:
        note.cls("repeated-frame")
    note.nt(len(want) > 1, key=[fmt, case["frames"]])
    return None


LEGS = [
    Leg("run_loop", chk_runloop, strategy=s_runloop, quick=500, thorough=15000, doc="TcpClient.run() itself on a scripted socket: pieces interleaved with receive timeouts"),
    Leg("pipeline", chk_pipeline, strategy=s_pipeline, quick=600, thorough=20000, doc="reader output fed to NetSource.handle_messages under several segmentations: everything transmitted is forwarded once, in order"),
    Leg("atheris_streams", chk_atheris, enum=enum_atheris, shards_quick=1, shards_thorough=4, doc="libFuzzer campaign: bytes -> frames + cut list, chunk-independence oracle inside the target (thorough tier only)"),
    Leg("chunking", chk_stream, strategy=s_stream, quick=1200, thorough=24000, doc="whole / every single cut / 1-byte pieces / drawn multi-cut, all formats"),
    Leg("double_cuts", chk_stream_double, strategy=s_small, quick=64, thorough=3000, doc="every pair of cut positions on short streams"),
    Leg("netsource", chk_net, strategy=s_net, quick=3000, thorough=100000, doc="NetSource.handle_messages forwards every long DF17/18/20/21 message once, in order"),
]
