"""C04 - CPR decode with a reference position (airborne and surface)."""
import math
from hypothesis import strategies as st

import pyModeS as pms
from ref import cpr, frames
from vlib import gen
from vlib import variants
from vlib.core import Leg, call
from checks import cprcommon as cg

PROPERTY = "C04"
RULE = ("one position (generator of C03) encoded as a single airborne (TC 9-18, 20-22) or surface (TC 5-8) frame of either parity; "
        "reference = encoded position + (f*Dlat, g*Dlon), f,g in {+-0.4999, +-0.49, U(-0.4999,0.4999)}, Dlat=(360|90)/(60-i), "
        "Dlon=(360|90)/max(NL-i,1); reference latitude clipped to [-90,90], longitude wrapped to [-180,180); a second reference "
        "from the same box; oracle: position_with_ref / airborne_position_with_ref / surface_position_with_ref within one "
        "quantisation step of the encoded position (lon mod 360), and equal (1e-9) for both references. non-trivial = |f| or |g| >= 0.49, "
        "reference across the equator / lon 0 / antimeridian from the target, or NL-i <= 1"
        ' Also: offsets of +-(0.5 - 5e-10) zone, whole-degree references passed as Python ints, numpy float64 / float32 / int8 / int16 references, hex letter case, and the identical string decoded first against a reference three zones away (history on the same string), positions whose CPR fields are round binary numbers with corner altitude / movement fields, the decoder first handed damaged forms of the squitter, other message types of the same aircraft decoded first.'
        ' Also: references exactly on the antimeridian and the poles, T bit drawn.')
ASSUMPTIONS = ["reference strictly inside the half-zone box (|f|,|g| <= 0.5 - 5e-10)", "reference encoder ref/cpr.py follows DO-260B A.1.7.3",
               "cases whose encoded latitude lies within 1e-9 deg of an NL transition are counted, not judged"]

EDGE = 0.5 - 5e-10  # still strictly inside the half-zone box; float error of ref/d is ~1e-14 zone
FRAC = st.one_of(st.sampled_from([0.4999, -0.4999, 0.49, -0.49, 0.0, EDGE, -EDGE]), gen.ufloat(-0.4999, 0.4999), gen.ufloat(-0.4999, 0.4999))


@st.composite
def s_ref(draw):
    surface = draw(st.booleans())
    tc = draw(st.integers(5, 8)) if surface else draw(st.one_of(st.integers(9, 18), st.integers(20, 22)))
    lat, lon, par = draw(cg.latitudes()), draw(cg.longitudes()), draw(st.integers(0, 1))
    special = draw(gen.uint(0, 7)) == 0
    if special:
        # a position whose CPR fields are round binary numbers (multiples of 4096, zero included): 1/32 fractions of a zone in both axes
        base = 90.0 if surface else 360.0
        dlat = base / (60 - par)
        jmax = int(89.0 / dlat)
        frac = st.one_of(st.sampled_from([0, 0, 0, 16, 1, 31]), gen.uint(0, 31))
        lat = dlat * (draw(gen.uint(-jmax, jmax)) + draw(frac) / 32.0)
        lat = max(-89.9, min(89.9, lat))
        dlon = base / max(cpr.NL(lat) - par, 1)
        kmax = int(179.0 / dlon)
        lon = dlon * (draw(gen.uint(-kmax, kmax)) + draw(frac) / 32.0)
    return {
        "lat": lat, "lon": lon, "par": par, "surface": surface, "tc": tc,
        "corner_fields": special and draw(st.booleans()),
        "f": draw(FRAC), "g": draw(FRAC), "f2": draw(FRAC), "g2": draw(FRAC),
        "ctx_bits": draw(gen.ubits(15)), "ctx_icao": draw(gen.addresses), "df": draw(st.sampled_from([17, 17, 18])), "hc": draw(gen.hexcase),
    }


def refpoint(e, i, surface, f, g):
    base = 90.0 if surface else 360.0
    dlat = base / (60 - i)
    dlon = base / max(e["nl"] - i, 1)
    rl = max(-90.0, min(90.0, e["rlat"] + f * dlat))
    ro = cg.wrap_lon(e["rlon"] + g * dlon)
    return rl, ro


def chk_ref(case, note):
    i, surface = case["par"], case["surface"]
    e = cpr.encode(case["lat"], case["lon"], i, surface)
    b = case["ctx_bits"]
    if case.get("corner_fields"):
        # the other fields of the message on corners too: altitude / movement all-zero ("not available") or all-one, as the low bits say
        b = 0 if b & 8 else 0x7FFF
        note.cls("round-cpr-fields-and-corner-altitude")
    if surface:
        me = cpr.me_surface(case["tc"], i, e["yz"], e["xz"], b & 127, (b >> 7) & 1, (b >> 8) & 127 & 127, (b >> 6) & 1)   # T bit either way
    else:
        me = cpr.me_airborne(case["tc"], i, e["yz"], e["xz"], b & 4095, (b >> 12) & 3, (b >> 14) & 1, (b >> 6) & 1)
    msg = frames.tohex(frames.df17(case["ctx_icao"], me, ca=b & 7, df=case["df"]), 112, case.get("hc", "U"))
    if cpr.near_transition(e["rlat"], 1e-9):
        note.cls("ambiguous-transition")
        return None
    fns = [("position_with_ref", pms.adsb.position_with_ref)]
    fns.append(("surface_position_with_ref", pms.adsb.surface_position_with_ref) if surface
               else ("airborne_position_with_ref", pms.adsb.airborne_position_with_ref))
    r1 = refpoint(e, i, surface, case["f"], case["g"])
    r2 = refpoint(e, i, surface, case["f2"], case["g2"])
    # a reference given as whole degrees (Python ints, e.g. an airport at 52, 4) is always inside the half-zone box: zones are >= 1.5 deg
    r3 = (int(round(e["rlat"])), int(round(cg.wrap_lon(e["rlon"]))))
    if r3[1] == 180:
        r3 = (r3[0], -180)
    import numpy as np
    r4 = (np.float64(r2[0]), np.float64(r2[1]))  # a reference read from a numpy array
    refs = [r1, r2, r3, r4]
    refs.append((np.int16(r3[0]), np.int16(r3[1])) if abs(r3[1]) > 127 or b & 16 else (np.int8(r3[0]), np.int8(r3[1])))   # whole degrees held in small numpy integers
    if max(abs(case["f2"]), abs(case["g2"])) <= 0.499:
        # a single-precision reference (receiver position kept in a float32 array): its rounding error (< 1e-5 deg) keeps it inside the box
        refs.append((np.float32(r2[0]), np.float32(r2[1])))
    # references exactly on the antimeridian (either sign, float or int) or on a pole, when that lies inside the half-zone box
    base_ = 90.0 if surface else 360.0
    if cpr.lon_diff(e["rlon"], 180.0) < 0.499 * base_ / max(e["nl"] - i, 1):
        refs += [(r1[0], 180.0), (r2[0], -180.0), (r3[0], 180)]
        note.cls("reference-on-the-antimeridian")
    if 90.0 - abs(e["rlat"]) < 0.499 * base_ / (60 - i):
        refs += [(math.copysign(90.0, e["rlat"]), r1[1]), (int(math.copysign(90, e["rlat"])), r2[1])]
        note.cls("reference-on-a-pole")
    dstep = e["dlon_step"] * (1 if not surface else 1)  # surface: 19-bit bins of a 360/ni zone == 17-bit bins of 90/ni
    if b & 2:
        variants.prelude(pms, msg)   # helpers on the same string, and other message types of the same aircraft, decoded first
    for name, fn in fns:
        outs = []
        if b & 1:  # the identical string decoded earlier against a reference some zones away (another aircraft position estimate, a second receiver)
            base = 90.0 if surface else 360.0
            far = max(-90.0, min(90.0, r1[0] + (3 if r1[0] < 0 else -3) * base / (60 - i)))
            call(fn, msg, far, cg.wrap_lon(r1[1] + 40.0))
        if b & 32:
            variants.damaged_calls(fn, msg, r1[0], r1[1])   # the same squitter cut short / too long was handed to this decoder before
        for (rl, ro) in refs:
            r = call(fn, msg, rl, ro)
            tag = "%s(%s, %r, %r)" % (name, msg, rl, ro)
            if r[0] != "ok":
                return "%s raised %r" % (tag, r[1:])
            try:
                lat, lon = r[1]
                ok = abs(lat - e["rlat"]) <= e["dlat_step"] + 1e-9 and cpr.lon_diff(lon, e["rlon"]) <= dstep + 1e-9
            except Exception:
                ok = False
            if not ok:
                return "%s = %r, encoded position (%r, %r)" % (tag, r[1], e["rlat"], e["rlon"])
            outs.append((lat, lon))
        for k, o in enumerate(outs[1:], 1):
            if abs(outs[0][0] - o[0]) > 1e-9 or cpr.lon_diff(outs[0][1], o[1]) > 1e-9:
                return "%s on %s: result moves with the reference inside the half-zone box: %r for reference %r, %r for reference %r" % (name, msg, outs[0], refs[0], o, refs[k])
    edge = max(abs(case["f"]), abs(case["g"]), abs(case["f2"]), abs(case["g2"])) >= 0.49
    cross = (r1[0] > 0) != (e["rlat"] > 0) or (r1[1] > 0) != (cg.wrap_lon(e["rlon"]) > 0)
    lowni = e["nl"] - i <= 1
    note.cls("surface" if surface else "airborne", "odd" if i else "even")
    if edge:
        note.cls("edge-of-box")
    if cross:
        note.cls("ref-across-equator-or-meridian")
    if lowni:
        note.cls("ni<=1")
    note.nt(edge or cross or lowni)
    return None


LEGS = [Leg("with_ref", chk_ref, strategy=s_ref, quick=48000, thorough=2000000,
            doc="single frame + reference anywhere in the half-zone box, two references must agree")]
