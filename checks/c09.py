"""C09 - ADS-B velocity: airborne (TC19) and surface movement (TC5-8)."""
import math

from hypothesis import strategies as st

import pyModeS as pms
from ref import frames
from vlib import gen
from vlib import variants
from vlib.core import Leg, call

PROPERTY = "C09"
RULE = ("TC19 messages built field by field from the DO-260B layout: subtype 1-4 x intent/IFR/NAC bits x sign bits x the two 10-bit fields "
        "(boundary {0,1,2,1022,1023} + uniform; each 10-bit field also swept exhaustively 0..1023 per subtype with the rest random) x VrSrc x sign x "
        "VR (9 bits) x difference sign x difference (7 bits); surface: all 128 movement x 2 status x 128 track codes (exhaustive) x TC 5-8. "
        "velocity / airborne_velocity / surface_velocity / speed_heading / altitude_diff with and without source=True. Oracle: the encoded quantities "
        "(speed between the integers enclosing the exact norm and equal to it for whole-knot norms - leg whole_knots has all of them -, track atan2 to 1e-9, heading N*360/1024 iff status, airspeed N-1 (x4) or None iff N=0, VR +-(N-1)*64 or None, "
        "difference +-(N-1)*25 or None iff N=0 (N=127 unconstrained), movement bin of DO-260B table, track N*360/128 iff status). "
        "non-trivial = a zero field, a sign bit set, a supersonic subtype, heading status 0, or a movement breakpoint"
        ' Also: helper calls on the same string first, one constant context per sweep, 965 real velocity frames judged by the reference field decoding (leg corpus), speed judged by the integers enclosing the exact norm with every whole-knot norm enumerated (leg whole_knots), the decoders first handed damaged forms of the frame, boundary addresses.')
ASSUMPTIONS = ["surface speed may be any representative inside the DO-260B movement bin [lower, upper)", "TC19 subtypes 0 and 5-7 are reserved and only covered by C14"]

F10 = st.one_of(st.sampled_from([0, 1, 2, 1022, 1023]), gen.uint(0, 1023), gen.uint(0, 1023))


def build_air(c):
    me = frames.me_from([(19, 5), (c["st"], 3), (c["ic"], 1), (c["ifr"], 1), (c["nac"], 3), (c["s1"], 1), (c["f1"], 10), (c["s2"], 1), (c["f2"], 10),
                         (c["vrsrc"], 1), (c["vrsign"], 1), (c["vr"], 9), (c["rsv"], 2), (c["dsign"], 1), (c["diff"], 7)])
    return frames.tohex(frames.df17(c["ctx_addr"], me, ca=c["ctx_ca"], df=c["df"]), 112, c["hc"])


@st.composite
def s_air(draw):
    return {"st": draw(st.integers(1, 4)), "ic": draw(st.integers(0, 1)), "ifr": draw(st.integers(0, 1)), "nac": draw(st.integers(0, 7)),
            "s1": draw(st.integers(0, 1)), "f1": draw(F10), "s2": draw(st.integers(0, 1)), "f2": draw(F10),
            "vrsrc": draw(st.integers(0, 1)), "vrsign": draw(st.integers(0, 1)),
            "vr": draw(st.one_of(st.sampled_from([0, 1, 2, 511]), gen.uint(0, 511))), "rsv": draw(st.integers(0, 3)),
            "dsign": draw(st.integers(0, 1)), "diff": draw(st.one_of(st.sampled_from([0, 1, 2, 126, 127]), gen.uint(0, 127))),
            "ctx_addr": draw(gen.addresses), "ctx_ca": draw(st.integers(0, 7)), "df": draw(st.sampled_from([17, 18])), "hc": draw(gen.hexcase)}


def angle_close(a, b, tol=1e-9):
    d = abs(a - b) % 360.0
    return min(d, 360.0 - d) <= tol


def expected_air(c):
    """-> None (whole result unavailable) or (spd_check, ang_check, vs, tag, dirtag, vrsrc)."""
    mult = 4 if c["st"] in (2, 4) else 1
    vs = None if c["vr"] == 0 else (-1 if c["vrsign"] else 1) * (c["vr"] - 1) * 64
    src = "BARO" if c["vrsrc"] else "GNSS"
    if c["st"] in (1, 2):
        if c["f1"] == 0 or c["f2"] == 0:
            return None
        vew = (-1 if c["s1"] else 1) * (c["f1"] - 1) * mult
        vns = (-1 if c["s2"] else 1) * (c["f2"] - 1) * mult
        trk = math.degrees(math.atan2(vew, vns)) % 360.0
        return (("bracket", vew * vew + vns * vns), ("angle", trk), vs, "GS", "TRUE_NORTH", src)
    hdg = c["f1"] * 360.0 / 1024 if c["s1"] else None
    spd = None if c["f2"] == 0 else (c["f2"] - 1) * mult
    return (("exact", spd), ("angle", hdg) if hdg is not None else ("exact", None), vs, "TAS" if c["s2"] else "IAS", "MAGNETIC_NORTH", src)


def match(chk, v):
    kind, exp = chk
    if kind == "exact":
        return (v is None) if exp is None else (v is not None and not isinstance(v, str) and v == exp)
    if v is None or isinstance(v, (str, bool)):
        return False
    if kind == "bracket":
        # exp = vx^2 + vy^2 exactly (integers): the reported speed lies between the integers that enclose the true norm, and equals the
        # norm when that is a whole number of knots (3-4-5 triangles)
        lo = math.isqrt(exp)
        hi = lo if lo * lo == exp else lo + 1
        return lo - 1e-9 <= v <= hi + 1e-9
    return angle_close(v, exp)


def chk_air(c, note):
    msg = build_air(c)
    exp = expected_air(c)
    if c["vr"] & 1:
        variants.prelude(pms, msg)  # parity / address of the same string looked at first
    if c["vr"] & 2:
        variants.damaged_calls(pms.adsb.velocity, msg)
        variants.damaged_calls(pms.adsb.airborne_velocity, msg)
    for fname, fn in (("velocity", pms.adsb.velocity), ("airborne_velocity", pms.adsb.airborne_velocity)):
        for source in (False, True):
            r = call(fn, msg, source) if source else call(fn, msg)
            tag = "%s(%s%s)" % (fname, msg, ", source=True" if source else "")
            if r[0] != "ok":
                return "%s raised %r" % (tag, r[1:])
            v = r[1]
            if exp is None:
                if v is not None:
                    return "%s = %r, expected None: a velocity component is marked unavailable (subtype %d, fields %d/%d)" % (tag, v, c["st"], c["f1"], c["f2"])
                continue
            n = 6 if source else 4
            if not isinstance(v, tuple) or len(v) != n:
                return "%s = %r, expected a %d-tuple (subtype %d, fields %d/%d, status/sign bits %d/%d)" % (tag, v, n, c["st"], c["f1"], c["f2"], c["s1"], c["s2"])
            if not (match(exp[0], v[0]) and match(exp[1], v[1]) and match(("exact", exp[2]), v[2]) and v[3] == exp[3]):
                return "%s = %r, encoded speed %s angle %r vertical rate %r type %s" % (
                    tag, v, ("sqrt(%d) = %.6f" % (exp[0][1], math.sqrt(exp[0][1]))) if exp[0][0] == "bracket" else repr(exp[0][1]), exp[1][1], exp[2], exp[3])
            if source and (v[4] != exp[4] or v[5] != exp[5]):
                return "%s = %r, encoded direction reference %s, vertical-rate source %s" % (tag, v, exp[4], exp[5])
    r = call(pms.adsb.speed_heading, msg)
    if exp is None:
        if r != ("ok", None):
            return "speed_heading(%s) = %r, expected None" % (msg, r)
    elif r[0] != "ok" or not isinstance(r[1], tuple) or len(r[1]) != 2 or not (match(exp[0], r[1][0]) and match(exp[1], r[1][1])):
        return "speed_heading(%s) = %r, encoded speed %r angle %r" % (msg, r, exp[0][1], exp[1][1])
    r = call(pms.adsb.altitude_diff, msg)
    d = c["diff"]
    if r[0] != "ok":
        return "altitude_diff(%s) raised %r" % (msg, r[1:])
    if d == 0:
        if r[1] is not None:
            return "altitude_diff(%s) = %r, expected None (no information)" % (msg, r[1])
    elif d != 127:
        e = (-1 if c["dsign"] else 1) * (d - 1) * 25
        if r[1] is None or r[1] != e:
            return "altitude_diff(%s) = %r, encoded %d ft" % (msg, r[1], e)
    nt = (c["f1"] == 0 or c["f2"] == 0 or c["vr"] == 0 or c["diff"] == 0 or c["s1"] == 1 or c["s2"] == 1 or c["st"] in (2, 4)
          or (c["st"] >= 3 and c["s1"] == 0))
    note.evals = 6
    note.cls("subtype%d" % c["st"])
    if c["f1"] == 0 or c["f2"] == 0:
        note.cls("zero-10bit-field")
    if c["st"] >= 3 and c["s1"] == 0:
        note.cls("heading-unavailable")
    note.nt(nt)
    return None


def enum_air_sweep(ctx):
    k = 1 if ctx.tier == "quick" else 12
    idx = 0
    for stp in (1, 2, 3, 4):
        for which in ("f1", "f2", "vr", "diff"):
            top = {"f1": 1024, "f2": 1024, "vr": 512, "diff": 128}[which]
            for val in range(top):
                for j in range(k + 1):
                    idx += 1
                    if not ctx.mine(idx):
                        continue
                    # the extra variant j == k uses one context for the whole sweep: consecutive frames differ in the swept field only
                    rng = ctx.rng("air", stp, which, val, j) if j < k else ctx.rng("air-fixed", stp, which)
                    c = {"st": stp, "ic": rng.getrandbits(1), "ifr": rng.getrandbits(1), "nac": rng.getrandbits(3), "s1": rng.getrandbits(1),
                         "f1": rng.randint(0, 1023), "s2": rng.getrandbits(1), "f2": rng.randint(0, 1023), "vrsrc": rng.getrandbits(1),
                         "vrsign": rng.getrandbits(1), "vr": rng.randint(0, 511), "rsv": rng.getrandbits(2), "dsign": rng.getrandbits(1),
                         "diff": rng.randint(0, 127), "ctx_addr": gen.addr24(rng), "ctx_ca": rng.getrandbits(3), "df": rng.choice([17, 18]),
                         "hc": rng.choice("ULM")}
                    if which in ("f1", "f2") and rng.random() < 0.7:  # keep the other component available so the swept one decides
                        c["f1"] = max(c["f1"], 1)
                        c["f2"] = max(c["f2"], 1)
                    c[which] = val
                    yield c


# ------------------------------------------------------------------ surface
BP = [(1, 0.0, 0.125, 1), (2, 0.125, 0.125, 7), (9, 1.0, 0.25, 4), (13, 2.0, 0.5, 26), (39, 15.0, 1.0, 55), (94, 70.0, 2.0, 15), (109, 100.0, 5.0, 15)]


def movement_bin(mov):
    """DO-260B table 2-?: movement code -> [lo, hi) kt, or None (no information / reserved)."""
    if mov == 0 or mov > 124:
        return None
    if mov == 124:
        return (175.0, float("inf"))
    for first, lo, step, count in BP:
        if first <= mov < first + count:
            return (lo + (mov - first) * step, lo + (mov - first + 1) * step)
    raise AssertionError(mov)


def enum_surface(ctx):
    idx = 0
    for mov in range(128):
        for status in (0, 1):
            for trk in range(128):
                idx += 1
                if ctx.mine(idx):
                    rng = ctx.rng("sf", idx)
                    yield {"mov": mov, "status": status, "trk": trk, "tc": rng.randint(5, 8), "ctx_low": rng.getrandbits(36), "ctx_addr": gen.addr24(rng),
                           "df": rng.choice([17, 18]), "hc": rng.choice("ULM")}


def chk_surface(c, note):
    me = (c["tc"] << 51) | (c["mov"] << 44) | (c["status"] << 43) | (c["trk"] << 36) | c["ctx_low"]
    msg = frames.tohex(frames.df17(c["ctx_addr"], me, df=c["df"]), 112, c["hc"])
    b = movement_bin(c["mov"])
    etrk = c["trk"] * 360.0 / 128 if c["status"] else None
    for fname, fn in (("velocity", pms.adsb.velocity), ("surface_velocity", pms.adsb.surface_velocity)):
        for source in (False, True):
            r = call(fn, msg, source) if source else call(fn, msg)
            tag = "%s(%s%s)" % (fname, msg, ", source=True" if source else "")
            n = 6 if source else 4
            if r[0] != "ok" or not isinstance(r[1], tuple) or len(r[1]) != n:
                return "%s -> %r, expected a %d-tuple" % (tag, r, n)
            v = r[1]
            if b is None:
                if v[0] is not None:
                    return "%s = %r: movement code %d carries no speed" % (tag, v, c["mov"])
            elif v[0] is None or isinstance(v[0], (str, bool)) or not (b[0] <= v[0] < b[1]):
                return "%s = %r: movement code %d means %s <= speed < %s kt" % (tag, v, c["mov"], b[0], b[1])
            if not match(("angle", etrk) if etrk is not None else ("exact", None), v[1]):
                return "%s = %r: encoded track %r (status %d, code %d)" % (tag, v, etrk, c["status"], c["trk"])
            if v[2] != 0 or v[3] != "GS":
                return "%s = %r: surface messages report vertical rate 0 and type GS" % (tag, v)
            if source and (v[4] != "TRUE_NORTH" or v[5] is not None):
                return "%s = %r: expected TRUE_NORTH / no vertical-rate source" % (tag, v)
    r = call(pms.adsb.speed_heading, msg)
    if r[0] != "ok" or not isinstance(r[1], tuple) or len(r[1]) != 2:
        return "speed_heading(%s) -> %r" % (msg, r)
    note.evals = 5
    brk = c["mov"] in (0, 1, 2, 8, 9, 12, 13, 38, 39, 93, 94, 108, 109, 123, 124, 125, 127)
    note.cls("TC%d" % c["tc"])
    note.nt(brk or c["status"] == 0, key=[c["mov"], c["status"], c["trk"]])
    return None


_WHOLE = []


def whole_pairs():
    """every pair of component magnitudes (0..1022 kt) whose norm is a whole number of knots: the speed must then be reported exactly"""
    if not _WHOLE:
        for a in range(0, 1023):
            for b in range(a, 1023):
                n2 = a * a + b * b
                r = math.isqrt(n2)
                if r * r == n2 and (a > 0 or b % 97 == 0):
                    _WHOLE.append((a, b))
    return _WHOLE


def enum_whole(ctx):
    idx = 0
    for (a, b) in whole_pairs():
        for (x, y) in ((a, b), (b, a)):
            for signs in range(4):
                for stp in (1, 2):
                    idx += 1
                    if ctx.mine(idx):
                        rng = ctx.rng("whole", x, y, signs, stp)
                        yield {"st": stp, "ic": rng.getrandbits(1), "ifr": rng.getrandbits(1), "nac": rng.getrandbits(3), "s1": signs & 1, "f1": x + 1, "s2": signs >> 1, "f2": y + 1,
                               "vrsrc": rng.getrandbits(1), "vrsign": rng.getrandbits(1), "vr": rng.randint(0, 511), "rsv": rng.getrandbits(2), "dsign": rng.getrandbits(1),
                               "diff": rng.randint(0, 127), "ctx_addr": gen.addr24(rng), "ctx_ca": rng.getrandbits(3), "df": rng.choice([17, 18]), "hc": rng.choice("ULM")}


def enum_corpus(ctx):
    from vlib import corpus
    for start, _ in corpus.blocks(corpus.adsb(), ctx):
        yield {"start": start}


def chk_corpus(case, note):
    from vlib import corpus
    n = 0
    for m, _icao, tc in corpus.adsb()[case["start"]:case["start"] + 100]:
        if tc != 19:
            continue
        me = (int(m, 16) >> 24) & ((1 << 56) - 1)
        g = lambda first, last: (me >> (56 - last)) & ((1 << (last - first + 1)) - 1)
        c = {"st": g(6, 8), "s1": g(14, 14), "f1": g(15, 24), "s2": g(25, 25), "f2": g(26, 35), "vrsrc": g(36, 36), "vrsign": g(37, 37), "vr": g(38, 46),
             "dsign": g(49, 49), "diff": g(50, 56)}
        if c["st"] not in (1, 2, 3, 4):
            continue
        exp = expected_air(c)
        r = call(pms.adsb.velocity, m, True)
        if r[0] != "ok":
            return "velocity(%s, source=True) raised %r on a real frame" % (m, r[1:])
        if exp is None:
            if r[1] is not None:
                return "velocity(%s) = %r, expected None (real frame with an unavailable component)" % (m, r[1])
        elif not (isinstance(r[1], tuple) and len(r[1]) == 6 and match(exp[0], r[1][0]) and match(exp[1], r[1][1]) and match(("exact", exp[2]), r[1][2])
                  and r[1][3:] == (exp[3], exp[4], exp[5])):
            return "velocity(%s, source=True) = %r; the fields of this real frame mean speed %s angle %r vertical rate %r %s %s %s" % (
                m, r[1], ("sqrt(%d)" % exp[0][1]) if exp[0][0] == "bracket" else repr(exp[0][1]), exp[1][1], exp[2], exp[3], exp[4], exp[5])
        n += 1
    note.evals = max(1, n)
    note.cls("real-tc19")
    note.nt(n > 0)
    return None


LEGS = [
    Leg("corpus", chk_corpus, enum=enum_corpus, exhaustive=True, doc="965 real airborne velocity frames judged by the reference field decoding"),
    Leg("surface", chk_surface, enum=enum_surface, exhaustive=True, doc="all 128 movement x 2 status x 128 track codes"),
    Leg("whole_knots", chk_air, enum=enum_whole, exhaustive=True, doc="every pair of component magnitudes whose norm is a whole number of knots (Pythagorean pairs, axes) x sign bits x subtype 1/2: speed exact"),
    Leg("airborne_sweep", chk_air, enum=enum_air_sweep, exhaustive=True, doc="each TC19 field swept over its whole range per subtype, other fields random"),
    Leg("airborne", chk_air, strategy=s_air, quick=30000, thorough=1200000, doc="boundary-biased TC19 field combinations"),
]
