"""C02 - ICAO address recovery is exact and canonical for every downlink format."""
from hypothesis import strategies as st

import pyModeS as pms
from ref import crc24, frames
from vlib import gen
from vlib import variants
from vlib import volume
from vlib.core import Leg, call

PROPERTY = "C02"
RULE = ("address (uniform 24-bit, 0, all-ones, block edges, letter-rich) x DF 0..31 x both lengths x payload (uniform/zero/one) x "
        "{upper,lower,mixed} hex; frames built with the AA field (DF11/17/18) or parity XOR address (DF0/4/5/16/20/21) by ref.crc24; "
        "oracle: icao() equals the address for those formats and None for every other DF; canonical half: two frames of one address in "
        "different formats and letter cases give the *same string*; adsb.icao / allcall.icao agree; strided sweep of the 2^24 addresses "
        "(all of them in the thorough tier). non-trivial = address and payload non-zero; canonical cases with a letter digit and "
        "differing case or DF"
        ' Also: real DF17/20/21 frames with their known addresses (leg corpus), addresses chosen so that the AP field repeats six hex digits of the data part, four concurrent callers (leg threads), 140 000 / 1.3 million distinct frames in a row in one process (leg volume), the first calls of a freshly imported package made by four threads at once (leg first_use), boundary addresses in every context.'
        ' Also: data parities with a value of its own (FFFFFF, the address, its complement, ...) by a GF(2) solve.')
ASSUMPTIONS = ["AP/PI overlay per Annex 10 as implemented in ref/crc24.py", "a frame of either length may carry any DF (icao() is documented length-agnostic)"]

AP = (0, 4, 5, 16, 20, 21)
AA = (11, 17, 18)


def build(addr, df, n, payload, hc):
    nb = n - 29
    body = payload & ((1 << nb) - 1)
    if df in AA:
        body = (body & ~(0xFFFFFF << (nb - 27))) | (addr << (nb - 27))  # bits 9-32
        v = frames.raw(df, body, n, 0 if df != 11 else 0)
    else:
        v = frames.raw(df, body, n, addr)
    return frames.tohex(v, n, hc)


@st.composite
def s_exact(draw):
    n = draw(st.sampled_from([56, 112]))
    df = draw(st.one_of(st.sampled_from(AP + AA), st.integers(0, 31)))
    return {"addr": draw(gen.addresses), "df": df, "n": n, "ctx_payload": draw(gen.bits(n - 29)), "hc": draw(gen.hexcase),
            "ap_from_data": draw(gen.uint(0, 40)) if draw(gen.uint(0, 5)) == 0 else None,
            # the parity of the data part as a value of its own: all ones, all zeros, one bit, the address itself (AP field all zeros), its complement (all ones)
            "parity_target": draw(st.sampled_from(["FFFFFF", "000000", "800000", "000001", "FFFFFE", "7FFFFF", "addr", "~addr"])) if draw(gen.uint(0, 5)) == 0 else None}


def chk_exact(case, note):
    addr, df = case["addr"], case["df"]
    if case.get("ap_from_data") is not None and df in AP:
        # choose the address so that the transmitted AP field repeats six hex digits of the data part
        probe = build(0, df, case["n"], case["ctx_payload"], "U")
        k = case["ap_from_data"] % (len(probe) - 11)
        addr = int(probe[-6:], 16) ^ int(probe[k:k + 6], 16)
        note.cls("AP-field-repeats-data-digits")
    payload = case["ctx_payload"]
    if case.get("parity_target") and df in AP and case.get("ap_from_data") is None:
        t = case["parity_target"]
        t = addr if t == "addr" else (addr ^ 0xFFFFFF if t == "~addr" else int(t, 16))
        nb = case["n"] - 29
        hi = ((df << nb) | (payload & ((1 << nb) - 1))) & ~0xFFFFFF
        x = frames.affine_solve(lambda x: crc24.parity(hi | x, case["n"] - 24) ^ t, 24)
        if x is not None:
            payload = (payload & ~0xFFFFFF) | x
            note.cls("data-parity-" + case["parity_target"])
    msg = build(addr, df, case["n"], payload, case["hc"])
    r = call(pms.icao, msg)
    note.cls("DF%d" % df, "len%d" % case["n"], case["hc"])
    if df in AP or df in AA:
        note.nt(addr != 0 and case["ctx_payload"] != 0)
        if r[0] != "ok" or not isinstance(r[1], str) or r[1].upper() != "%06X" % addr:
            return "icao(%s) -> %r, transponder address %06X (DF%d)" % (msg, r, addr, df)
    else:
        note.nt(True)
        if r != ("ok", None):
            return "icao(%s) -> %r, expected None for DF%d" % (msg, r, df)
    r2 = call(pms.adsb.icao, msg)
    if r2 != r:
        return "adsb.icao(%s) -> %r but common.icao -> %r" % (msg, r2, r)
    r3 = call(pms.allcall.icao, msg)
    if df == 11:
        if r3 != r:
            return "allcall.icao(%s) -> %r but common.icao -> %r" % (msg, r3, r)
    elif not (r3[0] == "raise" and r3[1] == "RuntimeError"):
        return "allcall.icao(%s) on DF%d -> %r, expected RuntimeError" % (msg, df, r3)
    return None


@st.composite
def s_canon(draw):
    return {"addr": draw(gen.addresses),
            "dfa": draw(st.sampled_from(AP + AA)), "dfb": draw(st.sampled_from(AP + AA)),
            "na": draw(st.sampled_from([56, 112])), "nb": draw(st.sampled_from([56, 112])),
            "ctx_pa": draw(gen.bits(83)), "ctx_pb": draw(gen.bits(83)), "hca": draw(gen.hexcase), "hcb": draw(gen.hexcase)}


def chk_canon(case, note):
    addr = case["addr"]
    ma = build(addr, case["dfa"], case["na"], case["ctx_pa"], case["hca"])
    mb = build(addr, case["dfb"], case["nb"], case["ctx_pb"], case["hcb"])
    ra, rb = call(pms.icao, ma), call(pms.icao, mb)
    letters = any(ch in "ABCDEF" for ch in "%06X" % addr)
    note.cls("AA-AA" if case["dfa"] in AA and case["dfb"] in AA else ("AP-AP" if case["dfa"] in AP and case["dfb"] in AP else "AA-AP"))
    note.nt(letters and (case["hca"] != case["hcb"] or case["dfa"] != case["dfb"]))
    if ra[0] != "ok" or rb[0] != "ok":
        return "icao raised: %r / %r" % (ra, rb)
    if ra[1] != rb[1]:
        return "same transponder %06X, different address strings: icao(%s) = %r but icao(%s) = %r" % (addr, ma, ra[1], mb, rb[1])
    return None


def enum_sweep(ctx):
    stride = 251 if ctx.tier == "quick" else 1
    blk = 256
    idx = 0
    for start in range(0, 1 << 24, blk * stride):
        idx += 1
        if ctx.mine(idx):
            yield {"start": start, "count": blk, "ctx_p": ctx.rng("sw", start).getrandbits(83), "all_formats": ctx.tier == "quick"}


def chk_sweep(case, note):
    p = case["ctx_p"]
    full = case.get("all_formats", True)
    for addr in range(case["start"], case["start"] + case["count"]):
        exp = "%06X" % addr
        if full:
            ms = (build(addr, 4, 56, p, "U"), build(addr, 17, 112, p, "L"), build(addr, 20, 112, p, "M"))
        else:  # complete sweep of the address space: one format per address, rotating
            ms = (build(addr, (4, 17, 20)[addr % 3], (56, 112, 112)[addr % 3], p, "ULM"[addr % 3]),)
        for m in ms:
            r = pms.icao(m)
            if not isinstance(r, str) or r.upper() != exp:
                return "icao(%s) -> %r, transponder address %s" % (m, r, exp)
    note.evals = case["count"] * (3 if full else 1)
    note.nt(True)
    return None


def enum_corpus(ctx):
    from vlib import corpus
    idx = 0
    for kind, items in (("adsb", corpus.adsb()), ("df20", corpus.commb(20)), ("df21", corpus.commb(21))):
        for start in range(0, len(items), 100):
            idx += 1
            if ctx.mine(idx):
                yield {"kind": kind, "start": start}


def chk_corpus(case, note):
    from vlib import corpus
    items = {"adsb": corpus.adsb, "df20": lambda: corpus.commb(20), "df21": lambda: corpus.commb(21)}[case["kind"]]()
    rows = items[case["start"]:case["start"] + 100]
    noisy = 0
    for row in rows:
        m, known = row[0], row[1]
        v = int(m, 16)
        if case["kind"] != "adsb":
            # reference AP decoding first: validates ref.crc24 against the address the radar interrogated.  The corpus is
            # real reception (3 of its 10 000 replies carry bit errors), so the label is allowed to disagree on a few frames
            # of a block; the library is then judged against the reference on every frame.
            ref = "%06X" % (crc24.parity(v >> 24, 88) ^ (v & 0xFFFFFF))
            if ref != known:
                noisy += 1
            known = ref
        for variant in (m, m.lower()):
            r = call(pms.icao, variant)
            if r != ("ok", known):
                return "icao(%s) -> %r, the real transponder address is %s" % (variant, r, known)
    if noisy > 3:
        return "reference AP overlay disagrees with the interrogated address on %d of %d real replies: the reference is wrong" % (noisy, len(rows))
    note.evals = 2 * len(rows)
    note.cls("real-" + case["kind"])
    note.nt(True)
    return None


def enum_threads(ctx):
    for k in range(4 if ctx.tier == "quick" else 32):
        if ctx.mine(k):
            yield {"ctx_seed": ctx.rng("thr", k).getrandbits(32)}


def chk_threads(case, note):
    """four threads inside icao() at once on replies of different transponders (switch interval 1 us)"""
    import random
    from vlib import variants
    rng = random.Random(case["ctx_seed"])
    jobs = []
    for _ in range(24):
        addr = gen.addr24(rng)
        df = rng.choice(AP + AA)
        m = build(addr, df, rng.choice([56, 112]), rng.getrandbits(83), rng.choice("UL"))
        jobs.append(("icao", pms.icao, (m,), ("ok", "%06X" % addr)))
    p = variants.hammer(jobs, nthreads=4, rounds=60)
    note.evals = len(jobs) * 4 * 60
    note.cls("concurrent-callers")
    note.nt(True)
    return p



# ---------------------------------------------------------------- volume: one process, very many distinct frames
VOL_DFS = [17, 18, 11, 4, 5, 20, 21, 0, 16, 4, 20, 17, 24, 19, 1, 22]


def vol_step(a, b, k):
    df = VOL_DFS[a & 15]
    n = 56 if (df in (0, 4, 5, 11) or (df not in (16, 17, 18, 20, 21) and a & 16)) else 112
    addr = (a >> 8) & 0xFFFFFF
    msg = build(addr, df, n, ((a >> 32) << 64) | b, "L" if a & 32 else "U")
    r = call(pms.icao, msg)
    if df in AP or df in AA:
        if r[0] != "ok" or not isinstance(r[1], str) or r[1].upper() != "%06X" % addr:
            return "icao(%s) -> %r, transponder address %06X (DF%d)" % (msg, r, addr, df)
    elif r != ("ok", None):
        return "icao(%s) -> %r, expected None for DF%d" % (msg, r, df)
    return None


# ---------------------------------------------------------------- first calls of a freshly imported package, four threads at once
def first_jobs(rng):
    jobs = []
    for _ in range(40):
        df = rng.choice([17, 18, 11, 4, 5, 20, 21, 0, 16, 24, 19])
        n = 56 if df in (0, 4, 5, 11) else 112
        addr = gen.addr24(rng)
        msg = build(addr, df, n, rng.getrandbits(n - 29), rng.choice("UL"))
        exp = "%06X" % addr if (df in AP or df in AA) else None
        jobs.append(("common.icao", (msg,), (lambda got, exp=exp: None if got[0] == "ok" and (got[1] is None if exp is None else (isinstance(got[1], str) and got[1].upper() == exp)) else "transponder address %s" % exp)))
    return jobs


LEGS = [
    variants.first_use_leg(first_jobs),
    volume.leg(vol_step, 140000, 1300000, "140 000 (thorough: 1.3 million per process) distinct frames of all formats through icao() in one process"),
    Leg("threads", chk_threads, enum=enum_threads, shards_quick=4, shards_thorough=8, doc="concurrent callers of icao() with a 1 us switch interval"),
    Leg("corpus", chk_corpus, enum=enum_corpus, exhaustive=True, doc="real DF17/DF20/DF21 frames with their known addresses (upper and lower case)"),
    Leg("exact", chk_exact, strategy=s_exact, quick=30000, thorough=1000000, doc="every DF x both lengths x letter case"),
    Leg("canonical", chk_canon, strategy=s_canon, quick=16000, thorough=500000, doc="same address, two formats/cases -> same string"),
    Leg("address_sweep", chk_sweep, enum=enum_sweep, exhaustive=False, doc="address sweep on DF4/DF17/DF20 (stride 251 quick, all 2^24 thorough)"),
]
