"""C08 - Identity code and surveillance / all-call reply fields."""
import pyModeS as pms
from ref import frames, gillham
from vlib import dual, variants
from vlib import volume
from vlib import variants
from vlib import gen
from vlib.core import Leg, call

PROPERTY = "C08"
RULE = ("all 8192 identity patterns (A,B,C,D octal digits x X bit, exhaustive) through common.squawk of the Python module and of the emulated "
        "Cython twin, and embedded in DF5 / DF21 (idcode, surv.identity) and TC28 (emergency_squawk) frames with random other bits; the full "
        "FS(8) x DR(32) x IIS(16) x IDS(4) product on DF4 and DF5 with random remaining bits (surv.fs/dr/um); CA(8) x all 80 (CL,IC) codes and "
        "overlay values >= 80 on DF11 (allcall.capability/interrogator/icao); every DF 0..31 for the RuntimeError guards. Oracle: the encoded "
        "values. non-trivial = identity other than 0000/7777 patterns plus those explicitly, field value != 0, DF outside the accepted set"
        ' Also: call history on the same string (helpers first, every call twice), one constant context per carrier, the un-guarded py_common.fs/dr/um copies on short and long replies, more than 2^20 distinct frames in a row in one process (leg volume), the first calls of a freshly imported package made by four threads at once (leg first_use), all-call replies whose PI digits repeat data digits (address solved for over GF(2)), every single-bit CRC syndrome and the generator as corrupt overlays, frames whose AP digits repeat data digits, the decoder first handed damaged forms of the frame.'
        ' Also: every bit behind the fields set / clear, AP / PI field included.')
ASSUMPTIONS = ["identity interleave C1 A1 C2 A2 C4 A4 X B1 D1 B2 D2 B4 D4 (Annex 10) in ref/gillham.squawk_encode",
               "SI code = 16*(CL-1)+IC for CL 1-4, 'corrupt IC' above 79; description strings are not asserted, only their type",
               "frames are length-consistent: DF<16 -> 14 hex digits, DF>=16 -> 28"]

_emu = {}


def csquawk():
    if "m" not in _emu:
        _emu["m"] = dual.emulated()
    return _emu["m"].squawk


def enum_squawk(ctx):
    for v in range(8192):
        if ctx.mine(v):
            a, b, c, d, x = v & 7, (v >> 3) & 7, (v >> 6) & 7, (v >> 9) & 7, v >> 12
            yield {"a": a, "b": b, "c": c, "d": d, "x": x}


def chk_squawk(case, note):
    a, b, c, d, x = (case[k] for k in "abcdx")
    code = gillham.squawk_encode(a, b, c, d, x)
    exp = "%d%d%d%d" % (a, b, c, d)
    bs = format(code, "013b")
    for nm, fn in (("py_common.squawk", pms.py_common.squawk), ("common.squawk", pms.common.squawk), ("c_common(emulated).squawk", csquawk())):
        r = call(fn, bs)
        if r != ("ok", exp):
            return "%s(%s) -> %r, transmitted identity %s (X=%d)" % (nm, bs, r, exp, x)
    note.evals = 3
    note.cls("X%d" % x)
    note.nt(True, key=code)
    return None


def enum_idcar(ctx):
    k = 3 if ctx.tier == "quick" else 30
    idx = 0
    for code in range(8192):
        for car in ("DF5", "DF21", "TC28"):
            idx += 1
            if ctx.mine(idx):
                rng = ctx.rng("id", code, car)
                rcar = ctx.rng("id-fixed", car)  # one context shared by all codes of a carrier
                yield {"code": code, "car": car, "ctx": [[rng.getrandbits(14), rng.getrandbits(56), gen.addr24(rng), rng.choice("ULM"), rng.getrandbits(11), rng.getrandbits(32)] for _ in range(k)] +
                       [[rcar.getrandbits(14), rcar.getrandbits(56), gen.addr24(rcar), "U", rcar.getrandbits(11), rcar.getrandbits(32)]]}


def digits(code):
    bit = lambda k: (code >> (12 - k)) & 1  # k = position in C1 A1 C2 A2 C4 A4 X B1 D1 B2 D2 B4 D4
    a = bit(1) | bit(3) << 1 | bit(5) << 2
    b = bit(7) | bit(9) << 1 | bit(11) << 2
    c = bit(0) | bit(2) << 1 | bit(4) << 2
    d = bit(8) | bit(10) << 1 | bit(12) << 2
    return "%d%d%d%d" % (a, b, c, d)


def chk_idcar(case, note):
    code, car = case["code"], case["car"]
    exp = digits(code)
    n = 0
    for head, tail, addr, hc, st, low in case["ctx"]:
        if car == "DF5":
            v5 = frames.raw(5, (head << 13) | code, 56, addr)
            if (head ^ code) & 6 == 0 and hc != "M":   # the address chosen so that the AP digits are the same as six digits of the data part
                v5 = frames.raw_ap_repeats(5, (head << 13) | code, 56, head >> 3)
            msg = frames.tohex(v5, 56, hc)
            fns = [("common.idcode", pms.common.idcode), ("surv.identity", pms.surv.identity)]
        elif car == "DF21":
            msg = frames.tohex(frames.raw(21, (((head << 13) | code) << 56) | tail, 112, addr), 112, hc)
            fns = [("common.idcode", pms.common.idcode)]
        else:
            me = (28 << 51) | (st << 45 & ((1 << 51) - 1)) | (code << 32) | low  # ME bits 12-24 carry the identity
            me = (28 << 51) | ((st & 0x3F) << 45) | (code << 32) | low
            msg = frames.tohex(frames.df17(addr, me, ca=head & 7, df=17 + (head >> 3 & 1)), 112, hc)
            fns = [("adsb.emergency_squawk", pms.adsb.emergency_squawk)]
        if (head ^ code) & 1:
            variants.prelude(pms, msg)  # address / parity of the same string looked at first, as a receiver does
        for nm, fn in fns:
            if (head ^ code) & 8:
                variants.damaged_calls(fn, msg)
            r = call(fn, msg)
            n += 1
            if r != ("ok", exp):
                return "%s(%s) -> %r, transmitted identity %s" % (nm, msg, r, exp)
            if call(fn, msg) != r:
                return "%s(%s) gives %r and then %r when called twice" % (nm, msg, r, call(fn, msg))
    note.evals = n
    note.cls(car)
    note.nt(True, key=[code, car])
    return None


def enum_surv(ctx):
    idx = 0
    for fs in range(8):
        for dr in range(32):
            for iis in range(16):
                for ids in range(4):
                    idx += 1
                    if ctx.mine(idx):
                        rng = ctx.rng("surv", idx)
                        c = {"fs": fs, "dr": dr, "iis": iis, "ids": ids, "df": rng.choice([4, 5]), "ctx_low": rng.getrandbits(13),
                             "ctx_addr": gen.addr24(rng), "hc": rng.choice("ULM")}
                        # every bit behind the fields set (or clear), the 24 bits of the AP field included: with IDS = 3 (0) that puts a run of ones (zeros)
                        # behind whichever field is looked at, from its last bit to the end of the frame
                        if ids == 3 or (ids == 0 and iis % 2 == 0):
                            c["tail"] = "ones" if ids == 3 else "zeros"
                        yield c


def chk_surv(case, note):
    fs, dr, iis, ids = case["fs"], case["dr"], case["iis"], case["ids"]
    body = (fs << 24) | (dr << 19) | (iis << 15) | (ids << 13) | case["ctx_low"]
    if case.get("tail"):
        body = (body & ~0x1FFF) | (0x1FFF if case["tail"] == "ones" else 0)
        ap = 0xFFFFFF if case["tail"] == "ones" else 0
        case = dict(case, ctx_addr=(frames.raw(case["df"], body, 56, 0) & 0xFFFFFF) ^ ap)   # the address that makes the transmitted AP field all ones / all zeros
        note.cls("tail-all-" + case["tail"])
    msg = frames.tohex(frames.raw(case["df"], body, 56, case["ctx_addr"]), 56, case["hc"])
    for nm, fn, exp in (("surv.fs", pms.surv.fs, (fs,)), ("surv.dr", pms.surv.dr, (dr,)), ("surv.um", pms.surv.um, (iis, ids))):
        r = call(fn, msg)
        if r[0] != "ok" or not isinstance(r[1], tuple) or tuple(r[1][: len(exp)]) != exp:
            return "%s(%s) -> %r, encoded %r" % (nm, msg, r, exp)
        if len(r[1]) != len(exp) + 1 or not (r[1][-1] is None or isinstance(r[1][-1], str)):
            return "%s(%s) -> %r: expected %d value(s) plus a description" % (nm, msg, r, len(exp))
    # py_common also exports fs/dr/um (documented for DF 4, 5, 20, 21); same fields on short and long replies
    long_msg = frames.tohex(frames.raw(case["df"] + 16, (body << 56) | (case["ctx_addr"] * 0x100000001 & ((1 << 56) - 1)), 112, case["ctx_addr"]), 112, case["hc"])
    for m in (msg, long_msg):
        for nm, exp in (("fs", (fs,)), ("dr", (dr,)), ("um", (iis, ids))):
            fn = getattr(pms.py_common, nm, None)
            if fn is None:
                continue
            r = call(fn, m)
            if r[0] != "ok" or not isinstance(r[1], tuple) or tuple(r[1][: len(exp)]) != exp:
                return "py_common.%s(%s) -> %r, encoded %r" % (nm, m, r, exp)
    note.evals = 9
    note.cls("DF%d" % case["df"])
    note.nt(bool(fs or dr or iis or ids))
    return None


def enum_allcall(ctx):
    idx = 0
    overlays = list(range(80)) + [80, 81, 95, 96, 127, 128, 255, 256, 4095, 0x800000, 0xFFFFFF]
    # corrupt overlays with a meaning of their own for a CRC: the remainder left by each single flipped bit of a short or long frame, the generator
    from ref import crc24
    overlays += sorted({crc24.remainder(1 << i, 56) for i in range(24, 56)} | {crc24.remainder(1 << i, 112) for i in range(24, 112)} | {0xFFF409, 0x7FFA04})
    for ca in range(8):
        for ov in overlays + ["r1", "r2", "r3"]:
            idx += 1
            if ctx.mine(idx):
                rng = ctx.rng("ac", idx)
                o = ov if isinstance(ov, int) else rng.randrange(80, 1 << 24)
                yield {"ca": ca, "overlay": o, "ctx_aa": gen.addr24(rng), "hc": rng.choice("ULM")}
        # the whole reply behind the CA field all ones / all zeros (address FFFFFF / 000000 and the overlay that makes the PI field the same)
        for tail in ("ones", "zeros"):
            idx += 1
            if ctx.mine(idx):
                aa = 0xFFFFFF if tail == "ones" else 0
                yield {"ca": ca, "overlay": (frames.df11(aa, ca, 0) & 0xFFFFFF) ^ aa, "ctx_aa": aa, "hc": "U", "tail": tail}
        # replies whose PI digits are the same as digits of the data part (address chosen for the purpose), every interrogator code
        for ov in list(range(80)) + [80, 200]:
            for k in (0, 1, 2):
                idx += 1
                if ctx.mine(idx):
                    yield {"ca": ca, "overlay": ov, "ctx_aa": 0, "pi_repeats": k, "hc": ctx.rng("acr", idx).choice("UL")}


def chk_allcall(case, note):
    ca, ov, aa = case["ca"], case["overlay"], case["ctx_aa"]
    if case.get("pi_repeats") is not None:
        sol = frames.df11_pi_repeats(ca, ov, case["pi_repeats"])
        if sol is None:
            note.cls("no-such-reply")
            return None
        aa = sol[0]
        note.cls("PI-digits-repeat-data-digits")
    msg = frames.tohex(frames.df11(aa, ca, ov), 56, case["hc"])
    exp_ic = "II%d" % ov if ov < 16 else ("SI%d" % (ov - 16) if ov <= 79 else "corrupt IC")
    r = call(pms.allcall.interrogator, msg)
    if r != ("ok", exp_ic):
        return "allcall.interrogator(%s) -> %r, encoded (CL,IC) overlay %d means %s" % (msg, r, ov, exp_ic)
    r = call(pms.allcall.capability, msg)
    if r[0] != "ok" or not isinstance(r[1], tuple) or len(r[1]) != 2 or r[1][0] != ca or not (r[1][1] is None or isinstance(r[1][1], str)):
        return "allcall.capability(%s) -> %r, encoded CA %d" % (msg, r, ca)
    r = call(pms.allcall.icao, msg)
    if r[0] != "ok" or not isinstance(r[1], str) or r[1].upper() != "%06X" % aa:
        return "allcall.icao(%s) -> %r, AA field %06X" % (msg, r, aa)
    note.evals = 3
    note.cls("II" if ov < 16 else ("SI" if ov < 80 else "corrupt"))
    note.nt(bool(ca or ov))
    return None


GUARDS = [
    ("surv.fs", lambda: pms.surv.fs, {4, 5}), ("surv.dr", lambda: pms.surv.dr, {4, 5}), ("surv.um", lambda: pms.surv.um, {4, 5}),
    ("surv.altitude", lambda: pms.surv.altitude, {4}), ("surv.identity", lambda: pms.surv.identity, {5}),
    ("allcall.icao", lambda: pms.allcall.icao, {11}), ("allcall.interrogator", lambda: pms.allcall.interrogator, {11}),
    ("allcall.capability", lambda: pms.allcall.capability, {11}), ("common.idcode", lambda: pms.common.idcode, {5, 21}),
]


def enum_guards(ctx):
    k = 4 if ctx.tier == "quick" else 60
    idx = 0
    for df in range(32):
        for j in range(k):
            idx += 1
            if ctx.mine(idx):
                rng = ctx.rng("g", df, j)
                n = 56 if df < 16 else 112
                yield {"df": df, "ctx_body": [0, (1 << (n - 29)) - 1][j] if j < 2 else rng.getrandbits(n - 29), "ctx_addr": gen.addr24(rng), "hc": rng.choice("ULM")}


def chk_guards(case, note):
    df = case["df"]
    n = 56 if df < 16 else 112
    msg = frames.tohex(frames.raw(df, case["ctx_body"], n, case["ctx_addr"]), n, case["hc"])
    eff = min(df, 24)
    for nm, get, ok in GUARDS:
        r = call(get(), msg)
        if eff in ok:
            if r[0] != "ok":
                return "%s(%s) on DF%d raised %r" % (nm, msg, df, r[1:])
        elif not (r[0] == "raise" and r[1] == "RuntimeError"):
            return "%s(%s) on DF%d -> %r, expected RuntimeError" % (nm, msg, df, r)
    r = call(pms.adsb.emergency_squawk, msg)
    is28 = eff in (17, 18) and (case["ctx_body"] >> (n - 29 - 27 - 5)) & 31 == 28 if n == 112 else False
    if not is28 and not (r[0] == "raise" and r[1] == "RuntimeError"):
        return "adsb.emergency_squawk(%s) on DF%d -> %r, expected RuntimeError" % (msg, df, r)
    note.evals = len(GUARDS) + 1
    note.cls("DF%d" % df)
    note.nt(True)
    return None



# ---------------------------------------------------------------- volume: one process, very many distinct frames
def vol_step(a, b, k):
    df = 5 if a & 1 else 21
    code = (a >> 2) & 8191
    n = 56 if df == 5 else 112
    body = (((a >> 15) & 16383) << 13) | code
    if n == 112:
        body = (body << 56) | (b >> 8)
    msg = "%0*X" % (n // 4, (df << (n - 5)) | (body << 24) | ((a >> 29) & 0xFFFFFF))   # the parity field is not looked at: any 24 bits
    if a & (1 << 60):
        msg = msg.lower()
    r = call(pms.common.idcode, msg)
    if r != ("ok", digits(code)):
        return "common.idcode(%s) -> %r, transmitted identity %s" % (msg, r, digits(code))
    return None


# ---------------------------------------------------------------- first calls of a freshly imported package, four threads at once
def first_jobs(rng):
    jobs = []
    for _ in range(40):
        code = rng.getrandbits(13)
        df = rng.choice([5, 21])
        n = 56 if df == 5 else 112
        body = (rng.getrandbits(14) << 13) | code
        if n == 112:
            body = (body << 56) | rng.getrandbits(56)
        msg = frames.tohex(frames.raw(df, body, n, gen.addr24(rng)), n, rng.choice("UL"))
        jobs.append(("common.idcode", (msg,), ("ok", digits(code))))
        if df == 5:
            jobs.append(("surv.identity", (msg,), ("ok", digits(code))))
    return jobs


LEGS = [
    variants.first_use_leg(first_jobs),
    volume.leg(vol_step, 1100000, 2400000, "1.1 million (thorough: 2.4 million per process) distinct DF5/21 frames through idcode() in one process"),
    Leg("squawk13", chk_squawk, enum=enum_squawk, exhaustive=True, doc="all 8192 identity patterns, Python and emulated Cython squawk()"),
    Leg("id_carriers", chk_idcar, enum=enum_idcar, exhaustive=True, doc="all 8192 patterns x DF5/DF21/TC28 x random contexts"),
    Leg("surv_fields", chk_surv, enum=enum_surv, exhaustive=True, doc="FS x DR x IIS x IDS product on DF4/5"),
    Leg("allcall", chk_allcall, enum=enum_allcall, exhaustive=True, doc="CA x all 80 interrogator codes + corrupt overlays on DF11"),
    Leg("guards", chk_guards, enum=enum_guards, exhaustive=False, doc="every DF 0..31 x each reply-specific decoder"),
]
