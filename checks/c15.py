"""C15 - The Cython common module is observationally equivalent to the Python one."""
import contextlib
import hashlib
import inspect
import io
import math
import os

from hypothesis import strategies as st

import pyModeS as pms  # noqa
from pyModeS import py_common as PY
from ref import cpr, frames
from vlib import dual, gen
from vlib.core import SRC, VERIF, Leg, call
from checks import cprcommon as cg

PROPERTY = "C15"
RULE = ("(a) each of the 19 shared functions on its whole domain: all 8192 13-bit strings (altitude, squawk), all 2048 11-bit strings (gray2alt), frames of "
        "both lengths x DF 0..31 x TC 0..31 x three letter cases (df, typecode, icao, crc +-encode, idcode, altcode, data, allzeros, hex2bin, hex2int), binary "
        "strings up to 62 bits, the C06 latitude set (cprNL), floats incl. negative non-integers (floor), 6-character addresses at every block edge "
        "(is_icao_assigned), wrongstatus on random fields: py_common vs the working-tree c_common.pyx run through /verif/pyxemu, sentinels -1 / -999999 "
        "standing for None only at this level; (b) calibration: the emulator applied to the pinned .pyx vs the pre-built binary on the same inputs; "
        "(c) every decoder of adsb/commb/surv/allcall/bds.infer/tell on generated frames in two package copies bound to py_common and to the emulated module: "
        "identical outcomes (value or exception type, printed text for tell), floats to 1e-9. non-trivial = either side returns a sentinel/None/exception, "
        "lower-case input, or a decoder whose result depends on typecode/altitude/cprNL/squawk"
        ' Also: eleven malformed variants of every code string, single- and two-bit data strings for wide wrongstatus fields, valid register contents on DF20 frames with unknown / illegal altitude codes in the decoder comparison, crc flags given as 1 / numpy.True_ / numpy.int64(1) / 0 / numpy.False_.'
        ' bin2hex also on 56 ... 120-bit strings.')
ASSUMPTIONS = ["no Cython compiler on the image: the working-tree .pyx is observed through a line-by-line emulation of its C typing (DESIGN 2.5); "
               "C undefined behaviour and overflow on assignment to typed locals are outside what it models",
               "the pre-built binary corresponds to the pinned .pyx (fixtures/c_common.pinned.pyx) and is used for calibration only",
               "binary strings are limited to 62 bits and hex strings to 15 digits for bin2int/hex2int (C long); bin2hex is also compared on 56 ... 120 bits (it is handed whole frames)"]

_C = {}


def emu():
    if "emu" not in _C:
        _C["emu"] = dual.emulated()
    return _C["emu"]


def emu_pinned():
    if "pin" not in _C:
        _C["pin"] = dual.emulated(os.path.join(VERIF, "fixtures", "c_common.pinned.pyx"), "c_common_pinned")
    return _C["pin"]


def binmod():
    if "bin" not in _C:
        _C["bin"] = dual.binary()
    return _C["bin"]


def copies():
    if "cp" not in _C:
        _C["cp"] = (dual.load_copy("pms_p", None), dual.load_copy("pms_c", emu()))
    return _C["cp"]


SENT = {"typecode": (-1,), "altitude": (-999999, -1), "altcode": (-999999, -1), "gray2alt": (-1, -999999)}


def norm(fname, r, side):
    """outcome -> comparable; C sentinels map to None only for the functions that define them"""
    if r[0] == "raise":
        return ("raise", r[1])
    v = r[1]
    if side == "c" and fname in SENT and v in SENT[fname]:
        v = None
    if isinstance(v, bool):
        return ("ok", "bool", v)
    if isinstance(v, float) or type(v).__module__ == "numpy":
        try:
            if float(v) == int(v):
                v = int(v)
        except Exception:
            pass
    return ("ok", v)


def compare(fname, args, fa, fb, note, sidea="py", sideb="c"):
    ra = call(fa, *args)
    rb = call(fb, *args)
    na, nb = norm(fname, ra, sidea), norm(fname, rb, sideb)
    if ra[0] == "raise" or rb[0] == "raise" or na[1] is None or nb[1] is None:
        note.nt(True)
    if na != nb:
        return "%s%r: %s -> %r, %s -> %r" % (fname, tuple(args), sidea, ra, sideb, rb)
    return None


# ------------------------------------------------------------------ (a)/(b) shared functions
def enum_codes(ctx):
    idx = 0
    for pair in ("emu", "calib"):
        for fname, n in (("altitude", 13), ("squawk", 13), ("gray2alt", 11)):
            for blk in range(0, 1 << n, 256):
                idx += 1
                if ctx.mine(idx):
                    yield {"pair": pair, "fn": fname, "n": n, "start": blk}


def sides(pair):
    if pair == "emu":
        return PY, emu(), "py", "c"
    b = binmod()
    return (emu_pinned(), b, "c", "c") if b is not None else None


def chk_codes(case, note):
    sd = sides(case["pair"])
    if sd is None:
        note.cls("calibration-skipped-no-binary")
        return None
    A, B, sa, sb = sd
    fa, fb = getattr(A, case["fn"]), getattr(B, case["fn"])
    for v in range(case["start"], case["start"] + 256):
        s = format(v, "0%db" % case["n"])
        p = compare(case["fn"], (s,), fa, fb, note, sa, sb)
        if p:
            return "[%s] %s" % (case["pair"], p)
    if case["fn"] != "gray2alt":  # malformed arguments: both modules must refuse the same ones
        s = format(case["start"] + 5, "0%db" % case["n"])
        for bad in (s + "\n", s + " ", " " + s, "\n" + s, s + "\r\n", s[:-1], s + "0", s[:-1] + "2", s[:-1] + "x", "", s.replace("0", "O", 1)):
            p = compare(case["fn"], (bad,), fa, fb, note, sa, sb)
            if p:
                return "[%s] malformed argument: %s" % (case["pair"], p)
    note.evals = 256
    note.cls(case["pair"] + "-" + case["fn"])
    note.nt(True)
    return None


FRAME_FNS = ["df", "typecode", "icao", "crc", "crc_enc", "idcode", "altcode", "data", "allzeros", "hex2bin", "hex2int15"]


@st.composite
def s_frames(draw):
    n = draw(st.sampled_from([56, 112]))
    df = draw(st.one_of(st.integers(0, 31), st.sampled_from([0, 4, 5, 11, 16, 17, 18, 20, 21])))
    body = draw(gen.bits(n - 29))
    if n == 112 and draw(st.booleans()):
        body = (body & ~(31 << 51 - 0 + 24 - 24)) if False else body
    v = frames.raw(df, body, n, draw(gen.ubits(24)))
    if draw(gen.uint(0, 9)) == 0:
        v = draw(st.sampled_from([0, (1 << n) - 1]))
    return {"pair": draw(st.sampled_from(["emu", "emu", "calib"])), "msg": frames.tohex(v, n, draw(gen.hexcase))}


def chk_frames(case, note):
    sd = sides(case["pair"])
    if sd is None:
        note.cls("calibration-skipped-no-binary")
        return None
    A, B, sa, sb = sd
    m = case["msg"]
    for fn in FRAME_FNS:
        if fn == "crc_enc":
            p = compare("crc", (m, True), A.crc, B.crc, note, sa, sb)
            if not p:
                # the flag as the caller may hold it: an int, a numpy bool (an element of a boolean mask), a numpy integer
                import numpy as np
                flag = (1, np.True_, np.int64(1), 0, np.False_, True)[int(m[2:4], 16) % 6]
                p = compare("crc", (m, flag), A.crc, B.crc, note, sa, sb)
        elif fn == "allzeros" and len(m) != 28:
            continue  # documented for 28-digit messages only (the data field of a short frame is empty)
        elif fn == "hex2int15":
            p = compare("hex2int", (m[:15],), A.hex2int, B.hex2int, note, sa, sb)
        else:
            p = compare(fn, (m,), getattr(A, fn), getattr(B, fn), note, sa, sb)
        if p:
            return "[%s] %s" % (case["pair"], p)
    note.evals = len(FRAME_FNS)
    note.cls(case["pair"] + "-frames")
    if m != m.upper():
        note.nt(True)
    return None


@st.composite
def s_misc(draw):
    kind = draw(st.sampled_from(["bin", "floor", "assigned", "wrongstatus", "nl"]))
    c = {"pair": draw(st.sampled_from(["emu", "emu", "calib"])), "kind": kind}
    if kind == "bin":
        n = draw(st.one_of(st.integers(1, 62), st.sampled_from([56, 112, 63, 64, 65, 112, 120])))
        c["s"] = format(draw(st.one_of(gen.ubits(n), st.sampled_from([(1 << n) - 1, 1 << (n - 1)]))), "0%db" % n)
    elif kind == "floor":
        c["x"] = draw(st.one_of(gen.ufloat(-1e6, 1e6), st.floats(-1e9, 1e9, allow_nan=False), st.sampled_from([-3.6, 3.6, -0.0, 0.5, -0.5, -1.0, 2.0 ** 40 + 0.5, -1e-300])))
    elif kind == "assigned":
        edges = [0x200000, 0x27FFFF, 0x280000, 0x28FFFF, 0x500000, 0x5FFFFF, 0x600000, 0x67FFFF, 0x680000, 0x6F0000, 0x900000, 0x9FFFFF, 0xB00000, 0xBFFFFF,
                 0xD00000, 0xDFFFFF, 0xF00000, 0xFFFFFF, 0]
        v = draw(st.one_of(gen.ubits(24), st.sampled_from(edges).flatmap(lambda e: st.sampled_from([max(0, e - 1), e, min(0xFFFFFF, e + 1)]))))
        c["s"] = frames.tohex(v, 24, draw(gen.hexcase))
    elif kind == "wrongstatus":
        c["s"] = format(draw(st.one_of(gen.bits(56), gen.uint(0, 55).map(lambda k: 1 << k), gen.uint(33, 55).map(lambda k: (1 << k) | (1 << (k - 33))))), "056b")
        a = draw(st.integers(2, 50))
        c["sb"], c["msb"], c["lsb"] = draw(st.integers(1, a)), a, draw(st.integers(a, 56))
    else:
        t = draw(st.sampled_from(sorted(cpr.TRANS.values()) + [0.0, 87.0, 90.0]))
        c["x"] = draw(st.sampled_from([1, -1])) * (t + draw(st.sampled_from([0.0, 1e-12, -1e-12, 1e-9, -1e-9, 1e-6, -1e-6, 5e-4, -5e-4, 9e-4, -9e-4])))
        if draw(st.booleans()):
            c["x"] = draw(gen.ufloat(-90, 90))
        c["x"] = max(-90.0, min(90.0, c["x"]))
    return c


def chk_misc(case, note):
    sd = sides(case["pair"])
    if sd is None:
        note.cls("calibration-skipped-no-binary")
        return None
    A, B, sa, sb = sd
    k = case["kind"]
    if k == "bin":
        # bin2hex is handed the 56 / 112 bits of a whole frame by the demodulator (rtlreader); bin2int returns a C long in the Cython twin and is compared up to 62 bits
        p = (compare("bin2int", (case["s"],), A.bin2int, B.bin2int, note, sa, sb) if len(case["s"]) <= 62 else None) or compare("bin2hex", (case["s"],), A.bin2hex, B.bin2hex, note, sa, sb)
        if len(case["s"]) > 62:
            note.cls("bin2hex-of-%d-bits" % len(case["s"]))
    elif k == "floor":
        p = compare("floor", (case["x"],), A.floor, B.floor, note, sa, sb)
    elif k == "assigned":
        p = compare("is_icao_assigned", (case["s"],), A.is_icao_assigned, B.is_icao_assigned, note, sa, sb)
    elif k == "wrongstatus":
        p = compare("wrongstatus", (case["s"], case["sb"], case["msb"], case["lsb"]), A.wrongstatus, B.wrongstatus, note, sa, sb)
    else:
        if cpr.near_transition(case["x"], 1e-9):
            note.cls("nl-within-1e-9-of-transition")
            return None
        p = compare("cprNL", (case["x"],), A.cprNL, B.cprNL, note, sa, sb)
    note.cls(case["pair"] + "-" + k)
    note.nt((k == "bin" and len(case["s"]) > 32) or (k == "floor" and case["x"] < 0 and case["x"] != int(case["x"])) or k in ("assigned", "wrongstatus")
            or (k == "nl" and (cpr.near_transition(case["x"], 0.02) or abs(case["x"]) > 86.5)))
    return "[%s] %s" % (case["pair"], p) if p else None


# ------------------------------------------------------------------ (c) decoders in two package copies
PASS_THROUGH = {"adsb.typecode": "typecode", "surv.altitude": "altcode"}


def unary_decoders(pkg):
    out = []
    for modname in ("adsb", "commb", "surv", "allcall"):
        mod = getattr(pkg, modname)
        names = getattr(mod, "__all__", None) or ["fs", "dr", "um", "altitude", "identity", "icao", "interrogator", "capability"]
        for nme in names:
            f = getattr(mod, nme, None)
            if f is None or not callable(f):
                continue
            try:
                params = [p for p in inspect.signature(f).parameters.values() if p.default is inspect._empty]
            except (TypeError, ValueError):
                continue
            if len(params) == 1:
                out.append(("%s.%s" % (modname, nme), f))
    out.append(("bds.infer", pkg.bds.infer))
    return out


def same_val(a, b):
    if isinstance(a, (tuple, list)) and isinstance(b, (tuple, list)):
        return len(a) == len(b) and all(same_val(x, y) for x, y in zip(a, b))
    if a is None or b is None or isinstance(a, (str, bool)) or isinstance(b, (str, bool)):
        return a is b if (a is None or b is None or isinstance(a, bool) or isinstance(b, bool)) else a == b
    try:
        fa, fb = float(a), float(b)
        if math.isnan(fa) and math.isnan(fb):
            return True
        return abs(fa - fb) <= 1e-9
    except Exception:
        return a == b


def outcome_same(ra, rb):
    if ra[0] != rb[0]:
        return False
    if ra[0] == "raise":
        return ra[1] == rb[1]
    return same_val(ra[1], rb[1])


@st.composite
def s_decframe(draw):
    kind = draw(st.sampled_from(["adsb", "adsb", "adsb", "commb", "register", "short", "any"]))
    if kind == "register":
        # a valid register content (generator of C12) on a DF20/21 frame whose altitude code is unknown, illegal or ordinary:
        # the inference predicates then depend on how the selected common module reports "no altitude"
        from checks import c12
        c = draw(c12.s_valid())
        how = draw(st.sampled_from(["zero", "illegal", "keep", "keep"]))
        if how == "zero":
            c["ac"] = 0
        elif how == "illegal":
            c["ac"] = draw(st.sampled_from([0b0000000000100, 0b1010100000000, 0b0000000000001, 0b1000100000101]))
        if how != "keep":
            c["df"] = 20
        return {"msg": c12.mkmsg(c), "extra": draw(gen.ubits(8))}
    if kind == "adsb":
        tc = draw(st.one_of(st.integers(0, 31), st.sampled_from([4, 9, 11, 18, 19, 20, 28, 29, 31])))
        me = (tc << 51) | draw(gen.bits(51))
        if 9 <= tc <= 18 and draw(st.booleans()):  # Q=0 altitude fields exercise the Gillham path
            me &= ~(1 << 40)
        v = frames.df17(draw(gen.ubits(24)), me, ca=draw(gen.uint(0, 7)), df=draw(st.sampled_from([17, 17, 18])))
        n = 112
    elif kind == "commb":
        v = frames.commb(draw(st.sampled_from([20, 21, 16])), draw(gen.ubits(24)), draw(gen.bits(56)), draw(gen.bits(27)))
        n = 112
    elif kind == "short":
        v = frames.raw(draw(st.sampled_from([0, 4, 5, 11])), draw(gen.bits(27)), 56, draw(gen.ubits(24)))
        n = 56
    else:
        df = draw(st.integers(0, 31))
        n = 56 if df < 16 else 112
        v = frames.raw(df, draw(gen.bits(n - 29)), n, draw(gen.ubits(24)))
    return {"msg": frames.tohex(v, n, draw(gen.hexcase)), "extra": draw(gen.ubits(8))}


def chk_decoders(case, note):
    P, C = copies()
    m = case["msg"]
    dp, dc = unary_decoders(P), unary_decoders(C)
    n = 0
    for (name, fp), (_, fc) in zip(dp, dc):
        short_fn = name.startswith("surv.") or name.startswith("allcall.")
        if short_fn != (len(m) == 14):
            continue  # each decoder is judged at the frame length it documents (DESIGN 2.4)
        ra, rb = call(fp, m), call(fc, m)
        n += 1
        if name in PASS_THROUGH:  # thin wrappers of a shared function: judged with that function's sentinels
            if norm(PASS_THROUGH[name], ra, "py") != norm(PASS_THROUGH[name], rb, "c"):
                return "%s(%s): with py_common -> %r, with c_common -> %r" % (name, m, ra, rb)
            continue
        if not outcome_same(ra, rb):
            return "%s(%s): with py_common -> %r, with c_common -> %r" % (name, m, ra, rb)
        if ra[0] == "ok" and ra[1] is None:
            note.nt(True)
    e = case["extra"]
    for name, args in () if len(m) == 14 else (("nic_v1", (e & 1,)), ("nic_v2", (e & 1, (e >> 1) & 1)), ("sil", ([None, 0, 1, 2][(e >> 2) & 3],)), ("velocity", (True,)),
                       ("position_with_ref", (((e * 7) % 170) - 85.0, ((e * 13) % 350) - 175.0))):
        ra, rb = call(getattr(P.adsb, name), m, *args), call(getattr(C.adsb, name), m, *args)
        n += 1
        if not outcome_same(ra, rb):
            return "adsb.%s(%s, %r): with py_common -> %r, with c_common -> %r" % (name, m, args, ra, rb)
    if len(m) == 28:
        # the two-register arbitration, with the reference altitude given, given as None, and left out (whatever the signature does with that)
        for args in ((250.0, 90.0, 10000.0), (250.0, 90.0, None), (250.0, 90.0), (0, 0, 0)):
            ra, rb = call(P.bds.is50or60, m, *args), call(C.bds.is50or60, m, *args)
            n += 1
            if not outcome_same(ra, rb):
                return "bds.is50or60(%s%s): with py_common -> %r, with c_common -> %r" % (m, "".join(", %r" % a for a in args), ra, rb)
    outs = []
    for pkg in (P, C):
        buf = io.StringIO()
        with contextlib.redirect_stdout(buf):
            r = call(pkg.tell, m)
        outs.append((r if r[0] == "raise" else ("ok", None), buf.getvalue() if r[0] == "ok" else ""))
    if outs[0][0][:2] != outs[1][0][:2] or outs[0][1] != outs[1][1]:
        return "tell(%s) differs: with py_common -> %r, with c_common -> %r" % (m, outs[0], outs[1])
    note.evals = n + 1
    if m != m.upper():
        note.nt(True)
    note.cls("DF%d" % min(int(m[:2], 16) >> 3, 24))
    return None


@st.composite
def s_pairs(draw):
    lat1, lon1, lat2, lon2 = draw(cg.near_pairs(1.0))
    surface = draw(st.booleans())
    return {"lat1": lat1, "lon1": lon1, "lat2": lat2, "lon2": lon2, "surface": surface, "t0": draw(st.integers(0, 5)), "t1": draw(st.integers(0, 5)),
            "tc": draw(st.integers(5, 8)) if surface else draw(st.integers(9, 18)), "bits": draw(gen.ubits(15)), "icao": draw(gen.ubits(24)), "hc": draw(gen.hexcase)}


def chk_pairs(case, note):
    P, C = copies()
    s = case["surface"]
    e0, e1 = cpr.encode(case["lat1"], case["lon1"], 0, s), cpr.encode(case["lat2"], case["lon2"], 1, s)
    b = case["bits"]
    if s:
        me0, me1 = cpr.me_surface(case["tc"], 0, e0["yz"], e0["xz"], b & 127), cpr.me_surface(case["tc"], 1, e1["yz"], e1["xz"], b & 127)
    else:
        me0, me1 = cpr.me_airborne(case["tc"], 0, e0["yz"], e0["xz"], b & 4095), cpr.me_airborne(case["tc"], 1, e1["yz"], e1["xz"], b & 4095)
    m0 = frames.tohex(frames.df17(case["icao"], me0), 112, case["hc"])
    m1 = frames.tohex(frames.df17(case["icao"], me1), 112, case["hc"])
    rl, ro = case["lat1"], case["lon1"]
    for name, args in (("position", (m0, m1, case["t0"], case["t1"], rl, ro)), ("position", (m1, m0, case["t1"], case["t0"], rl, ro)),
                       ("position_with_ref", (m0, rl, ro)), ("position_with_ref", (m1, rl, ro))):
        ra, rb = call(getattr(P.adsb, name), *args), call(getattr(C.adsb, name), *args)
        if any(cpr.near_transition(x, 1e-9) for x in (e0["rlat"], e1["rlat"])):
            continue
        if not outcome_same(ra, rb):
            return "adsb.%s%r: with py_common -> %r, with c_common -> %r" % (name, args, ra, rb)
    note.evals = 4
    note.nt(cpr.near_transition(e0["rlat"], 0.02) or abs(e0["rlat"]) > 86.5)
    return None


def extra_coverage():
    pyx = os.path.join(SRC, "pyModeS", "c_common.pyx")
    h = hashlib.sha256(open(pyx, "rb").read()).hexdigest()
    hp = hashlib.sha256(open(os.path.join(VERIF, "fixtures", "c_common.pinned.pyx"), "rb").read()).hexdigest()
    return {"c_common_pyx_sha256": h, "pinned_pyx_sha256": hp, "binary_available": binmod() is not None,
            "binary_matches_working_tree_pyx": h == hp}


EXTRA_COVERAGE = extra_coverage

LEGS = [
    Leg("codes", chk_codes, enum=enum_codes, exhaustive=True, doc="altitude/squawk/gray2alt on every bit string; py vs emulated .pyx, and emulated pinned .pyx vs binary"),
    Leg("frame_functions", chk_frames, strategy=s_frames, quick=20000, thorough=500000, doc="df/typecode/icao/crc/idcode/altcode/data/allzeros/hex2bin/hex2int on frames"),
    Leg("misc_functions", chk_misc, strategy=s_misc, quick=20000, thorough=500000, doc="bin2int/bin2hex/floor/is_icao_assigned/wrongstatus/cprNL"),
    Leg("decoders", chk_decoders, strategy=s_decframe, quick=6000, thorough=150000, doc="every unary decoder + tell in two package copies"),
    Leg("cpr_decoders", chk_pairs, strategy=s_pairs, quick=6000, thorough=150000, doc="position / position_with_ref in two package copies"),
]
