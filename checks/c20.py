"""C20 - Standard-atmosphere and airspeed conversions are consistent."""
import math

import numpy as np
from hypothesis import strategies as st

import pyModeS as pms
from ref import cpr, isa
from vlib import gen
from vlib.core import Leg, call
from checks import cprcommon as cg

aero = pms.aero
PROPERTY = "C20"
RULE = ("altitudes -500..20000 m (uniform, plus 0, 11000 +- {0,1e-6,1}, 20000, -500), speeds 0.5..450 m/s, Mach (0,1.3]; scalar and numpy-array arguments; "
        "coordinate pairs incl. identical, antipodal, polar and across +-180. Oracle: p/rho/T within 0.1% of an independent ICAO ISA and of 9 tabulated rows, "
        "continuity at the tropopause, inverse pairs (1e-6 relative for the compressible pairs, 1e-12 for tas<->eas / tas<->mach), strict monotonicity, "
        "CAS=EAS=TAS at sea level, TAS>=EAS and CAS>=EAS for h>=0, distance symmetric and within 0.5 m + 1e-9 d of haversine, bearing in [0,360); "
        "array results equal element-wise scalar results. non-trivial = altitude within 1 m of 0/11000/20000 or above the tropopause, speed > 250 m/s or < 5 m/s, "
        "antipodal/polar/antimeridian coordinate pairs"
        ' Also: whole-number arguments as Python ints, int16/int32/int64/uint16 arrays, an altitude array updated in place between two calls, a scalar speed with an altitude array and a speed array with a scalar altitude, single-precision (numpy.float32) calls at the same altitudes made earlier in the process, altitudes on the 25 m grid, broadcast shapes (column x row, one-element arrays), 2-D altitude arrays in C / Fortran order and as transposed or strided views, coordinate arrays of float / signed / unsigned integer dtypes in both longitude conventions (leg geo_arrays).'
        ' Also unsigned altitude arrays, float32 speeds, array results kept across later calls.')
ASSUMPTIONS = ["numpy evaluates trigonometric functions of float32 and of 16-bit integer arrays in single precision; distance/bearing on such arrays are judged at that precision (5 km / 1e-3 deg), on 32/64-bit integer and float64 arrays at 0.5 m / 1e-9 deg",
               "ISA reference ref/isa.py (g0/(R L) = 5.25588) checked at import against tabulated ICAO values",
               "compressible round trips judged at 1e-6 relative: the impact-pressure formula cancels at low speed (measured worst 7e-9)"]

ALT = st.one_of(gen.ufloat(-500, 20000), gen.ufloat(-500, 20000), gen.ufloat(-500, 20000), gen.uint(-20, 800).map(lambda k: k * 25.0),
                st.sampled_from([-500.0, 0.0, 11000.0, 11000.0 - 1e-6, 11000.0 + 1e-6, 10999.0, 11001.0, 20000.0, 1e-9]))
SPD = st.one_of(gen.ufloat(0.5, 450), gen.ufloat(0.5, 450), st.sampled_from([0.5, 1.0, 5.0, 100.0, 340.0, 450.0]))
MACH = st.one_of(gen.ufloat(0.001, 1.3), st.sampled_from([0.001, 0.5, 1.0, 1.3]))


def fin(x):
    try:
        return bool(np.isfinite(x))
    except Exception:
        return False


def rel(a, b):
    return abs(a - b) / max(abs(a), abs(b), 1e-300)


@st.composite
def s_isa(draw):
    return {"h": draw(ALT)}


def chk_isa(c, note):
    h = c["h"]
    r = call(aero.atmos, h)
    if r[0] != "ok":
        return "atmos(%r) raised %r" % (h, r[1:])
    p, rho, t = (float(x) for x in r[1])
    ep, er, et = isa.atmos(h)
    for nm, got, exp in (("pressure", p, ep), ("density", rho, er), ("temperature", t, et)):
        if not fin(got) or rel(got, exp) > 1e-3:
            return "atmos(%r): %s = %r, ICAO ISA %r" % (h, nm, got, exp)
    for fn, exp in ((aero.pressure, p), (aero.density, rho), (aero.temperature, t)):
        if float(fn(h)) != exp:
            return "%s(%r) = %r differs from atmos() = %r" % (fn.__name__, h, fn(h), exp)
    a = float(aero.vsound(h))
    if rel(a, math.sqrt(1.4 * isa.RGAS * et)) > 1e-3:
        return "vsound(%r) = %r, ISA %r" % (h, a, math.sqrt(1.4 * isa.RGAS * et))
    # continuity at the tropopause
    for fn in (aero.pressure, aero.density, aero.temperature):
        f0 = float(fn(11000.0))
        for d in (-1e-6, 1e-6):
            if rel(float(fn(11000.0 + d)), f0) > 1e-6:
                return "%s not continuous at 11 km: %r vs %r" % (fn.__name__, float(fn(11000.0 + d)), f0)
    note.nt(abs(h) < 1 or abs(h - 11000) < 1 or h > 11000 or h < 0)
    note.cls("strat" if h > 11000 else "trop")
    return None


def enum_table(ctx):
    for i, row in enumerate(isa.TABLE):
        if ctx.mine(i):
            yield {"row": i}


def chk_table(c, note):
    h, t, p, rho = isa.TABLE[c["row"]]
    gp, gr, gt = (float(x) for x in aero.atmos(float(h)))
    for nm, got, exp in (("pressure", gp, p), ("density", gr, rho), ("temperature", gt, t)):
        if rel(got, exp) > 1e-3:
            return "atmos(%d): %s = %r, tabulated ISA %r" % (h, nm, got, exp)
    note.nt(True)
    return None


@st.composite
def s_conv(draw):
    return {"h": draw(ALT), "v": draw(SPD), "v2": draw(SPD), "m": draw(MACH), "pre32": draw(st.booleans())}


PAIRS = [("tas2cas", "cas2tas", 1e-6), ("cas2tas", "tas2cas", 1e-6), ("tas2eas", "eas2tas", 1e-12), ("eas2tas", "tas2eas", 1e-12),
         ("tas2mach", "mach2tas", 1e-12)]


def chk_conv(c, note):
    h, v, v2, m = c["h"], c["v"], c["v2"], c["m"]
    if c.get("pre32"):
        # another caller of the same process works in single precision (values read from a float32 array) at the same altitudes, before us
        for hv in (h, 0.0, float(int(round(h)))):
            h32 = np.float32(hv)
            for f in ("atmos", "vsound", "density"):
                call(getattr(aero, f), h32)
            call(aero.tas2cas, np.float32(v), h32)
            call(aero.cas2mach, np.float32(v), h32)
        note.cls("after-float32-calls")
    for f, g, tol in PAIRS:
        y = call(getattr(aero, f), v, h)
        if y[0] != "ok" or not fin(y[1]):
            return "%s(%r, %r) -> %r" % (f, v, h, y)
        x = call(getattr(aero, g), y[1], h)
        if x[0] != "ok" or not fin(x[1]) or rel(float(x[1]), v) > tol:
            return "%s(%s(%r, %r), %r) = %r: not the inverse (tolerance %g)" % (g, f, v, h, h, x[1], tol)
    for f, g, tol in (("mach2tas", "tas2mach", 1e-12), ("mach2cas", "cas2mach", 1e-6)):
        y = call(getattr(aero, f), m, h)
        if y[0] != "ok" or not fin(y[1]):
            return "%s(%r, %r) -> %r" % (f, m, h, y)
        x = call(getattr(aero, g), y[1], h)
        if x[0] != "ok" or not fin(x[1]) or rel(float(x[1]), m) > tol:
            return "%s(%s(%r, %r), %r) = %r: not the inverse (tolerance %g)" % (g, f, m, h, h, x[1], tol)
    y = float(aero.cas2mach(v, h))
    if rel(float(aero.mach2cas(y, h)), v) > 1e-6:
        return "mach2cas(cas2mach(%r, %r)) = %r" % (v, h, float(aero.mach2cas(y, h)))
    lo, hi = sorted([v, v2])
    if hi >= lo * (1 + 1e-6):
        for f in ("tas2cas", "cas2tas", "tas2eas", "eas2tas", "tas2mach", "mach2tas"):
            a, b = float(getattr(aero, f)(lo, h)), float(getattr(aero, f)(hi, h))
            if not b > a:
                return "%s not strictly increasing at h=%r: f(%r)=%r, f(%r)=%r" % (f, h, lo, a, hi, b)
        a, b = float(aero.mach2cas(lo / 400, h)), float(aero.mach2cas(hi / 400, h))
        if not b > a:
            return "mach2cas not strictly increasing at h=%r: %r -> %r, %r -> %r" % (h, lo / 400, a, hi / 400, b)
    for f in ("tas2cas", "cas2tas", "tas2eas", "eas2tas"):
        y = float(getattr(aero, f)(v, 0.0))
        if rel(y, v) > 1e-6:
            return "%s(%r, 0) = %r: CAS = EAS = TAS at sea level" % (f, v, y)
    if h >= 0:
        eas, cas = float(aero.tas2eas(v, h)), float(aero.tas2cas(v, h))
        if eas > v * (1 + 1e-9):
            return "tas2eas(%r, %r) = %r > TAS" % (v, h, eas)
        if cas < eas * (1 - 1e-9):
            return "tas2cas(%r, %r) = %r < EAS %r" % (v, h, cas, eas)
    # whole-number arguments are usually passed as Python ints: same values, same results
    vi, hi = int(round(v)) or 1, int(round(h))
    for f in ("tas2cas", "cas2tas", "tas2eas", "eas2tas", "tas2mach", "cas2mach"):
        a, b = call(getattr(aero, f), vi, hi), call(getattr(aero, f), float(vi), float(hi))
        if a[0] != "ok" or b[0] != "ok" or not fin(a[1]) or rel(float(a[1]), float(b[1])) > 1e-12:
            return "%s(%d, %d) with int arguments = %r, with the same values as floats = %r" % (f, vi, hi, a, b)
    for f in ("pressure", "density", "temperature", "vsound"):
        a, b = call(getattr(aero, f), hi), call(getattr(aero, f), float(hi))
        if a[0] != "ok" or b[0] != "ok" or rel(float(a[1]), float(b[1])) > 1e-12:
            return "%s(%d) with an int argument = %r, with a float = %r" % (f, hi, a, b)
    note.evals = 30
    note.nt(abs(h) < 1 or abs(h - 11000) < 1 or h > 11000 or v > 250 or v < 5)
    return None


@st.composite
def s_arrays(draw):
    n = draw(st.integers(1, 6))
    return {"h": [draw(ALT) for _ in range(n)], "v": [draw(SPD) for _ in range(n)]}


def chk_arrays(c, note):
    H, V = np.array(c["h"]), np.array(c["v"])
    for f in ("tas2cas", "cas2tas", "tas2eas", "eas2tas", "tas2mach", "cas2mach"):
        arr = getattr(aero, f)(V, H)
        sc = [float(getattr(aero, f)(v, h)) for v, h in zip(c["v"], c["h"])]
        # numpy's vectorised pow may differ from the scalar one by an ulp, which the impact-pressure formulas amplify at low speed
        tol = 1e-6 if "cas" in f else 1e-12
        if np.shape(arr) != (len(sc),) or any(rel(float(a), b) > tol for a, b in zip(arr, sc)):
            return "%s on arrays %r, %r = %r but element-wise scalars give %r" % (f, c["v"], c["h"], arr, sc)
        # one speed at many altitudes, many speeds at one altitude
        for what, args, sc2 in (("(%r, array %r)" % (c["v"][0], c["h"]), (c["v"][0], H), [(c["v"][0], h) for h in c["h"]]),
                                ("(array %r, %r)" % (c["v"], c["h"][0]), (V, c["h"][0]), [(v, c["h"][0]) for v in c["v"]])):
            got = call(getattr(aero, f), *args)
            exp = [float(getattr(aero, f)(a, b)) for a, b in sc2]
            if got[0] != "ok" or np.shape(got[1]) != (len(exp),) or any(rel(float(a), b) > tol for a, b in zip(got[1], exp)):
                return "%s%s -> %r but element-wise scalars give %r" % (f, what, got, exp)
    for f in ("pressure", "density", "temperature", "vsound"):
        arr = getattr(aero, f)(H)
        sc = [float(getattr(aero, f)(h)) for h in c["h"]]
        if np.shape(arr) != (len(sc),) or any(rel(float(a), b) > 1e-12 for a, b in zip(arr, sc)):
            return "%s on array %r = %r but scalars give %r" % (f, c["h"], arr, sc)
    # broadcasting: a column of speeds against a row of altitudes, a one-element speed array against an altitude array
    if len(c["h"]) > 1:
        for f in ("tas2cas", "cas2tas", "tas2eas", "eas2tas", "tas2mach", "mach2tas", "cas2mach"):
            for what, a_, b_ in (("a column of speeds, a row of altitudes", V.reshape(-1, 1), H.reshape(1, -1)), ("a one-element speed array, an altitude array", V[:1], H),
                                 ("a speed array, a one-element altitude array", V, H[:1])):
                got = call(getattr(aero, f), a_, b_)
                shape = np.broadcast(a_, b_).shape
                A2, B2 = np.broadcast_to(a_, shape), np.broadcast_to(b_, shape)
                exp = np.array([float(getattr(aero, f)(float(x), float(y))) for x, y in zip(A2.ravel().tolist(), B2.ravel().tolist())]).reshape(shape)
                tol = 1e-6 if "cas" in f else 1e-12
                if got[0] != "ok" or np.shape(got[1]) != shape or np.any(np.abs(np.asarray(got[1], dtype=float) - exp) > tol * np.abs(exp)):
                    return "%s(%s: %r, %r) -> %r, element-wise scalars give %r" % (f, what, a_.tolist(), b_.tolist(), got, exp.tolist())
    # arrays of more than one dimension in every memory layout: C order, Fortran order, a transposed view, a strided view
    hs = (c["h"] * 4)[:max(4, len(c["h"]) // 2 * 2 + 2)]
    hs = hs[:len(hs) // 2 * 2]
    base2 = np.array(hs, dtype=float).reshape(2, -1)
    wide = np.array([hs, hs[::-1], hs], dtype=float)
    for lname, H2 in (("C-ordered 2-D", base2), ("Fortran-ordered 2-D", np.asfortranarray(base2)), ("transposed view", base2.T), ("strided view", wide[::2, ::1]), ("column view", wide[:, 1:])):
        for f in ("pressure", "density", "temperature", "vsound"):
            got = call(getattr(aero, f), H2)
            exp = np.array([[float(getattr(aero, f)(float(x))) for x in row] for row in H2.tolist()])
            if got[0] != "ok" or np.shape(got[1]) != exp.shape or np.any(np.abs(np.asarray(got[1], dtype=float) - exp) > 1e-12 * np.abs(exp)):
                return "%s on a %s array %r -> %r, element-wise scalars give %r" % (f, lname, H2.tolist(), got, exp.tolist())
        got = call(aero.tas2eas, 200.0, H2)
        exp = np.array([[float(aero.tas2eas(200.0, float(x))) for x in row] for row in H2.tolist()])
        if got[0] != "ok" or np.shape(got[1]) != exp.shape or np.any(np.abs(np.asarray(got[1], dtype=float) - exp) > 1e-12 * np.abs(exp)):
            return "tas2eas(200.0, %s array %r) -> %r, element-wise scalars give %r" % (lname, H2.tolist(), got, exp.tolist())
    # integer-valued arrays of any integer dtype, and an altitude array the caller updates in place between two calls
    Vi, Hi = np.round(V).astype(int).clip(1, 450), np.round(H).astype(int)
    for f in ("tas2cas", "cas2tas", "tas2eas", "eas2tas", "tas2mach"):
        ref_ = np.asarray(getattr(aero, f)(Vi.astype(float), Hi.astype(float)), dtype=float)
        for dt in (np.int16, np.int32, np.int64, np.uint16):  # (float32 is left out: the impact-pressure formulas lose 1e-5 in single precision)
            got = call(getattr(aero, f), Vi.astype(dt), Hi.astype(np.int32))
            tol = 1e-12
            if got[0] != "ok" or np.shape(got[1]) != np.shape(ref_) or not np.all(np.isfinite(got[1])) or \
                    np.any(np.abs(np.asarray(got[1], dtype=float) - ref_) > tol * np.abs(ref_) + 1e-12):
                return "%s on %s arrays %r, %r -> %r, on float64 arrays -> %r" % (f, dt.__name__, Vi.tolist(), Hi.tolist(), got, ref_.tolist())
    # altitudes held in unsigned integer arrays (metres above sea level as read from a file): the same values as in a signed array
    Hu = np.round(H).astype(int).clip(0, 20000)
    for f in ("pressure", "density", "temperature", "vsound"):
        ref_ = np.asarray(getattr(aero, f)(Hu.astype(float)), dtype=float)
        for dt in (np.uint16, np.uint32, np.uint64, np.int64):
            got = call(getattr(aero, f), Hu.astype(dt))
            if got[0] != "ok" or np.shape(got[1]) != np.shape(ref_) or np.any(np.abs(np.asarray(got[1], dtype=float) - ref_) > 1e-12 * np.abs(ref_)):
                return "%s on a %s altitude array %r -> %r, on float64 -> %r" % (f, dt.__name__, Hu.tolist(), got, ref_.tolist())
    for f in ("tas2cas", "tas2eas", "eas2tas", "tas2mach"):
        ref_ = np.asarray(getattr(aero, f)(V, Hu.astype(float)), dtype=float)
        for dt in (np.uint16, np.uint32):
            got = call(getattr(aero, f), V, Hu.astype(dt))
            if got[0] != "ok" or np.shape(got[1]) != np.shape(ref_) or np.any(np.abs(np.asarray(got[1], dtype=float) - ref_) > 1e-12 * np.abs(ref_) + 1e-12):
                return "%s(%r, %s altitude array %r) -> %r, with float64 altitudes -> %r" % (f, V.tolist(), dt.__name__, Hu.tolist(), got, ref_.tolist())
    # single-precision speeds (a float32 column of a data file) against a plain float altitude and against a float64 altitude array: the atmosphere is
    # double precision, so the result is that of the same speeds held in float64 (conversions that start from a CAS work in the precision of their
    # input on the pinned tree and are left out, as are float32 altitudes)
    V32 = V.astype(np.float32)
    V64 = V32.astype(float)
    for f in ("tas2cas", "tas2eas", "eas2tas", "tas2mach"):
        for what, hh in (("a float altitude", float(c["h"][0])), ("a float64 altitude array", H)):
            ref_ = np.asarray(getattr(aero, f)(V64, hh), dtype=float)
            got = call(getattr(aero, f), V32, hh)
            if got[0] != "ok" or np.shape(got[1]) != np.shape(ref_) or np.any(np.abs(np.asarray(got[1], dtype=float) - ref_) > 1e-6 * np.abs(ref_) + 1e-9):
                return "%s(float32 speeds %r, %s %r) -> %r, the same speeds in float64 -> %r" % (f, V32.tolist(), what, hh if isinstance(hh, float) else hh.tolist(), got, ref_.tolist())
    buf = np.array(c["h"], dtype=float)
    for f in ("pressure", "density", "temperature", "vsound"):
        getattr(aero, f)(buf)
        buf += 1234.5                      # same array object, new contents
        np.clip(buf, -500, 20000, out=buf)
        got = np.asarray(getattr(aero, f)(buf), dtype=float)
        fresh = np.asarray(getattr(aero, f)(np.array(buf.tolist())), dtype=float)
        if np.shape(got) != np.shape(fresh) or np.any(np.abs(got - fresh) > 1e-12 * np.abs(fresh)):
            return "%s on an array updated in place since the previous call -> %r, on a fresh array with the same contents -> %r" % (f, got.tolist(), fresh.tolist())
    # a result the caller keeps while making further calls with arrays of the same shape: it must still hold what it was returned with, and the
    # input arrays must be left as they were
    other = np.clip(H[::-1] * 0.5 + 3000.0, -500, 20000)
    for f in ("pressure", "density", "temperature", "vsound", "atmos", "tas2eas", "eas2tas", "tas2cas", "cas2tas", "tas2mach", "mach2tas", "cas2mach", "mach2cas"):
        fn = getattr(aero, f)
        one = f in ("pressure", "density", "temperature", "vsound", "atmos")
        v_in = np.clip(V, 0.05, 0.95) if f.startswith("mach2") else V
        args1 = (H.copy(),) if one else (v_in.copy(), H.copy())
        keep_in = [a.copy() for a in args1]
        r1 = fn(*args1)
        parts = list(r1) if isinstance(r1, tuple) else [r1]
        snap = [np.array(x, dtype=float, copy=True) for x in parts]
        for g in ("atmos", "density", f):
            gn = getattr(aero, g)
            gn(other.copy()) if g in ("pressure", "density", "temperature", "vsound", "atmos") else gn(v_in.copy(), other.copy())
        for x, s0 in zip(parts, snap):
            if np.shape(x) != np.shape(s0) or not np.array_equal(np.asarray(x, dtype=float), s0, equal_nan=True):
                return "%s(%s) returned %r; after further calls on other arrays of the same shape the returned object reads %r" % (f, [a.tolist() for a in keep_in], s0.tolist(), np.asarray(x).tolist())
        for a, k in zip(args1, keep_in):
            if not np.array_equal(a, k):
                return "%s changed its input array %r into %r" % (f, k.tolist(), a.tolist())
    note.nt(len(c["h"]) > 1)
    return None


@st.composite
def s_geo(draw):
    kind = draw(st.sampled_from(["any", "any", "same", "antipodal", "polar", "dateline", "near"]))
    lat1, lon1 = draw(cg.latitudes()), draw(cg.longitudes())
    lat2, lon2 = draw(cg.latitudes()), draw(cg.longitudes())
    if kind == "same":
        lat2, lon2 = lat1, lon1
    elif kind == "antipodal":
        lat2, lon2 = -lat1, cg.wrap_lon(lon1 + 180)
    elif kind == "polar":
        lat1 = draw(st.sampled_from([90.0, -90.0, 89.999999]))
    elif kind == "dateline":
        lon1, lon2 = 179.9 + draw(gen.ufloat(0, 0.1)), -179.9 - draw(gen.ufloat(0, 0.1))
    elif kind == "near":
        lat2, lon2 = max(-90, min(90, lat1 + draw(gen.ufloat(-1e-3, 1e-3)))), cg.wrap_lon(lon1 + draw(gen.ufloat(-1e-3, 1e-3)))
    return {"lat1": lat1, "lon1": lon1, "lat2": lat2, "lon2": lon2, "kind": kind}


def chk_geo(c, note):
    a = (c["lat1"], c["lon1"], c["lat2"], c["lon2"])
    d1 = call(aero.distance, *a)
    d2 = call(aero.distance, a[2], a[3], a[0], a[1])
    if d1[0] != "ok" or d2[0] != "ok" or not fin(d1[1]) or not fin(d2[1]):
        return "distance%r -> %r / reversed %r" % (a, d1, d2)
    d1, d2 = float(d1[1]), float(d2[1])
    hv = cpr.haversine_m(*a)
    tol = 0.5 + 1e-9 * hv
    if abs(d1 - d2) > tol:
        return "distance not symmetric: %r vs %r for %r" % (d1, d2, a)
    if abs(d1 - hv) > tol or d1 < 0:
        return "distance%r = %r, haversine %r" % (a, d1, hv)
    b = call(aero.bearing, *a)
    if b[0] != "ok" or not fin(b[1]) or not (0 <= float(b[1]) < 360):
        return "bearing%r -> %r, expected a value in [0, 360)" % (a, b)
    note.cls(c["kind"])
    note.nt(c["kind"] in ("antipodal", "polar", "dateline", "same", "near"))
    return None


# ------------------------------------------------------------------ distance / bearing on coordinate arrays
@st.composite
def s_geo_arrays(draw):
    n = draw(st.integers(1, 5))
    pts = [[draw(gen.uint(-90, 90)), draw(gen.uint(-180, 179)), draw(gen.uint(-90, 90)), draw(gen.uint(-180, 179))] for _ in range(n)]
    return {"pts": pts, "lonconv": draw(st.sampled_from(["signed", "0-359"])), "dtype": draw(st.sampled_from(["float64", "int16", "int32", "int64", "uint16-lon", "float32"]))}


def chk_geo_arrays(c, note):
    """whole-degree coordinates held in arrays of the usual dtypes, longitudes in the -180..179 or in the 0..359 convention: the array call equals the scalar calls"""
    P = np.array(c["pts"], dtype=float)
    if c["lonconv"] == "0-359" or c["dtype"] == "uint16-lon":
        P[:, 1] %= 360
        P[:, 3] %= 360
    latdt = {"float64": float, "int16": np.int16, "int32": np.int32, "int64": np.int64, "uint16-lon": np.int16, "float32": np.float32}[c["dtype"]]
    londt = np.uint16 if c["dtype"] == "uint16-lon" else latdt
    args = (P[:, 0].astype(latdt), P[:, 1].astype(londt), P[:, 2].astype(latdt), P[:, 3].astype(londt))
    # numpy computes the trigonometric functions of float32 - and of 16-bit integer - arrays in single precision: judged at that precision
    single = c["dtype"] in ("float32", "int16", "uint16-lon")
    tolrel = 1e-5 if single else 1e-9
    # (the law of cosines resolves arccos near 1 to sqrt(2 eps): 0.1 m in double, 2-3 km in single precision)
    for f, cmpf in (("distance", lambda a, b: abs(a - b) <= 0.5 + tolrel * abs(b) + (5000.0 if single else 0.0)),
                    ("bearing", lambda a, b: min((a - b) % 360, (b - a) % 360) <= (1e-3 if single else 1e-9))):
        got = call(getattr(aero, f), *args)
        exp = [float(getattr(aero, f)(*[float(v) for v in row])) for row in P.tolist()]
        bad = got[0] != "ok" or np.shape(got[1]) != (len(exp),)
        if not bad:
            for g, e, row in zip(np.asarray(got[1], dtype=float).tolist(), exp, P.tolist()):
                if not fin(g):
                    bad = True
                elif f == "bearing" and cpr.haversine_m(*row) < (20000.0 if single else 1.0):
                    continue    # the direction between identical points is not defined
                elif f == "bearing" and (abs(row[0]) == 90 or abs(row[2]) == 90 or cpr.haversine_m(row[0], row[1], -row[2], row[3] + 180) < 1.0):
                    continue    # nor from / to a pole, nor between antipodes
                elif not cmpf(g, e):
                    bad = True
        if bad:
            return "%s on %s arrays (lat %r, lon %r, lat %r, lon %r) -> %r, scalar calls with the same values give %r" % (
                f, c["dtype"], P[:, 0].tolist(), P[:, 1].tolist(), P[:, 2].tolist(), P[:, 3].tolist(), got, exp)
    note.cls("geo-arrays-" + c["dtype"], "lon-" + c["lonconv"])
    note.nt(len(c["pts"]) > 1)
    return None


LEGS = [
    Leg("geo_arrays", chk_geo_arrays, strategy=s_geo_arrays, quick=4000, thorough=150000, doc="distance / bearing on coordinate arrays (float, signed and unsigned integer dtypes, both longitude conventions) == scalar calls"),
    Leg("isa", chk_isa, strategy=s_isa, quick=8000, thorough=400000, doc="p, rho, T, a vs independent ISA; continuity at 11 km"),
    Leg("isa_table", chk_table, enum=enum_table, exhaustive=True, doc="9 tabulated ISA rows"),
    Leg("conversions", chk_conv, strategy=s_conv, quick=16000, thorough=800000, doc="inverse pairs, monotonicity, sea-level identities, orderings"),
    Leg("arrays", chk_arrays, strategy=s_arrays, quick=3000, thorough=100000, doc="numpy-array arguments == element-wise scalars"),
    Leg("geo", chk_geo, strategy=s_geo, quick=16000, thorough=500000, doc="distance symmetry/haversine, bearing range"),
]
