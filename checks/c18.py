"""C18 - Uplink interrogation decoding."""
from hypothesis import strategies as st

import pyModeS as pms  # noqa
from pyModeS.decoder import uplink as U
from ref import crc24, frames
from vlib import gen
from vlib import volume
from vlib import variants
from vlib.core import Leg, call

PROPERTY = "C18"
RULE = ("uplink frames built from Annex 10 field layouts with the address/parity field formed by the uplink AP encoder (parity XOR the high 24 bits of "
        "G(x)*A(x)); uplink_icao over uniform/boundary addresses x random payloads x both lengths; UF11: PR(16) x IC(16) x CL(8) exhaustive; "
        "UF4/5/20/21: RR(32) x DI(8) x SD (16 bits: all single bits, 0, 0xFFFF and random; exhaustive per DI in the thorough tier) with the rest random; "
        "every UF 0..31. Oracle: the encoded UF/RR/DI/RRS/PR/IC/LOS/LSS values; uplink_fields must agree with the single-field functions. "
        "non-trivial = address and payload non-zero, or any non-zero control field"
        ' Also: every call repeated (the same interrogation is seen again and again) and the dict returned by uplink_fields kept while another interrogation is decoded, 40 000 / 1.2 million distinct interrogations in a row in one process with identical frames coming back after 4 100 ... 1 050 000 others (leg volume), the first calls of a freshly imported package made by four threads at once (leg first_use), boundary addresses (FFFFFF broadcast) in every context.')
ASSUMPTIONS = ["SD sub-fields per Annex 10 Vol IV 3.1.2.6.1.4.1: IIS 17-20 (DI 0,1,7), RRS 21-24 and LOS 26 (DI 7), LOS 26 (DI 1), SIS 17-22, LSS 23, RRS 24-27 (DI 3)",
               "interrogator code for CL 5-7 and for DI 2,4,5,6 is unconstrained", "'' and None both count as 'no value' in uplink_fields"]

RC = (4, 5, 20, 21)


def upl(uf, body, n, addr, hc="U"):
    data = (uf << (n - 29)) | body
    return frames.tohex(crc24.uplink_frame(data, n - 24, addr), n, hc)


@st.composite
def s_icao(draw):
    n = draw(st.sampled_from([56, 112]))
    return {"addr": draw(gen.addresses), "n": n, "ctx_data": draw(gen.bits(n - 24)), "hc": draw(gen.hexcase)}


def chk_icao(c, note):
    n = c["n"]
    msg = frames.tohex(crc24.uplink_frame(c["ctx_data"], n - 24, c["addr"]), n, c["hc"])
    r = call(U.uplink_icao, msg)
    for _ in range(2):  # the same interrogation is typically seen again and again
        if call(U.uplink_icao, msg) != r:
            return "uplink_icao(%s) -> %r, then %r on a repeated call" % (msg, r, call(U.uplink_icao, msg))
    note.nt(c["addr"] != 0 and c["ctx_data"] != 0)
    note.cls("len%d" % n)
    if r[0] != "ok" or not isinstance(r[1], str) or r[1].upper() != "%06X" % c["addr"]:
        return "uplink_icao(%s) -> %r, interrogated address %06X" % (msg, r, c["addr"])
    return None


_SPECIAL = []


def special_addresses():
    """addresses with a meaning of their own on either side of the uplink address encoding: boundary values and CRC constants, and the addresses
    whose *modified* form (the high 24 bits of G(x)A(x), what is actually overlaid on the parity) is such a value"""
    if not _SPECIAL:
        vals = {0, 1, 0x800000, 0xFFFFFF, 0xFFF409, 0x7FFA04, 0x000FFF, 0xFFF000} | {1 << k for k in range(24)} | {crc24.remainder(1 << i, 56) for i in range(24, 56)}
        out = set(vals)
        for t in vals:
            a = frames.affine_solve(lambda x, t=t: crc24.uplink_modified_address(x) ^ t, 24)
            if a is not None:
                out.add(a)
        _SPECIAL.extend(sorted(out))
    return _SPECIAL


def enum_special(ctx):
    idx = 0
    for addr in special_addresses():
        for n in (56, 112):
            for j in range(3):
                idx += 1
                if ctx.mine(idx):
                    rng = ctx.rng("special", addr, n, j)
                    yield {"addr": addr, "n": n, "ctx_data": [0, 1, rng.getrandbits(n - 24)][j] if j < 2 else rng.getrandbits(n - 24), "hc": rng.choice("UL")}


def enum_uf11(ctx):
    idx = 0
    for pr in range(16):
        for icf in range(16):
            for cl in range(8):
                idx += 1
                if ctx.mine(idx):
                    rng = ctx.rng("uf11", idx)
                    yield {"pr": pr, "ic": icf, "cl": cl, "ctx_spare": rng.getrandbits(16), "ctx_addr": gen.addr24(rng), "hc": rng.choice("ULM")}


def nov(x):
    return x is None or x == ""


def chk_uf11(c, note):
    body = (c["pr"] << 23) | (c["ic"] << 19) | (c["cl"] << 16) | c["ctx_spare"]
    msg = upl(11, body, 56, c["ctx_addr"], c["hc"])
    if call(U.uf, msg) != ("ok", 11):
        return "uf(%s) -> %r, expected 11" % (msg, call(U.uf, msg))
    if call(U.pr, msg) != ("ok", c["pr"]):
        return "pr(%s) -> %r, encoded PR %d" % (msg, call(U.pr, msg), c["pr"])
    eic = "II%d" % c["ic"] if c["cl"] == 0 else ("SI%d" % (c["ic"] + 16 * (c["cl"] - 1)) if c["cl"] <= 4 else None)
    r = call(U.ic, msg)
    if r[0] != "ok" or (eic is not None and r[1] != eic):
        return "ic(%s) -> %r, encoded CL %d IC %d -> %s" % (msg, r, c["cl"], c["ic"], eic)
    for fn in (U.bds, U.lockout):
        if call(fn, msg) != ("ok", None):
            return "%s(%s) -> %r on UF11, expected None" % (fn.__name__, msg, call(fn, msg))
    f = call(U.uplink_fields, msg)
    if f[0] != "ok" or not isinstance(f[1], dict):
        return "uplink_fields(%s) -> %r" % (msg, f)
    if f[1].get("PR") != c["pr"] or (eic is not None and f[1].get("IC") != eic) or (eic is None and f[1].get("IC") != r[1] and not (nov(f[1].get("IC")) and nov(r[1]))):
        return "uplink_fields(%s) = %r disagrees with pr()=%d / ic()=%r" % (msg, f[1], c["pr"], r[1])
    note.evals = 6
    note.nt(bool(c["pr"] or c["ic"] or c["cl"]))
    return None


def enum_rc(ctx):
    idx = 0
    for uf in RC:
        for rr in range(32):
            for di in range(8):
                sds = [0, 0xFFFF] + [1 << b for b in range(16)]
                rng0 = ctx.rng("rc", uf, rr, di)
                sds += [rng0.getrandbits(16) for _ in range(24 if ctx.tier == "quick" else 200)]
                for sd in sds:
                    idx += 1
                    if ctx.mine(idx):
                        rng = ctx.rng("rcc", idx)
                        yield {"uf": uf, "rr": rr, "di": di, "sd": sd, "ctx_pc": rng.getrandbits(3), "ctx_ma": rng.getrandbits(56), "ctx_addr": gen.addr24(rng), "hc": rng.choice("ULM")}
    if ctx.tier == "thorough":
        for di in range(8):
            for rr in (0, 17, 31):
                for sd in range(65536):
                    idx += 1
                    if ctx.mine(idx):
                        rng = ctx.rng("rcx", idx)
                        yield {"uf": rng.choice(RC), "rr": rr, "di": di, "sd": sd, "ctx_pc": rng.getrandbits(3), "ctx_ma": rng.getrandbits(56), "ctx_addr": gen.addr24(rng), "hc": "U"}


def chk_rc(c, note):
    uf, rr, di, sd = c["uf"], c["rr"], c["di"], c["sd"]
    n = 56 if uf in (4, 5) else 112
    body = (c["ctx_pc"] << 24) | (rr << 19) | (di << 16) | sd
    if n == 112:
        body = (body << 56) | c["ctx_ma"]
    msg = upl(uf, body, n, c["ctx_addr"], c["hc"])
    bit = lambda k: (sd >> (32 - k)) & 1  # SD occupies bits 17..32
    fld = lambda a, b: (sd >> (32 - b)) & ((1 << (b - a + 1)) - 1)
    if call(U.uf, msg) != ("ok", uf):
        return "uf(%s) -> %r, expected %d" % (msg, call(U.uf, msg), uf)
    rrs = fld(21, 24) if di == 7 else (fld(24, 27) if di == 3 else 0)
    ebds = "%X%X" % (rr - 16, rrs) if rr > 15 else None
    r = call(U.bds, msg)
    if r != ("ok", ebds):
        return "bds(%s) -> %r, encoded RR %d DI %d RRS %d -> %r" % (msg, r, rr, di, rrs, ebds)
    elock = bool(bit(26)) if di in (1, 7) else (bool(bit(23)) if di == 3 else False)
    r = call(U.lockout, msg)
    if r[0] != "ok" or r[1] is None or bool(r[1]) != elock or not isinstance(r[1], (bool, int)):
        return "lockout(%s) -> %r, encoded DI %d -> %r" % (msg, r, di, elock)
    eic = "II%d" % fld(17, 20) if di in (0, 1, 7) else ("SI%d" % fld(17, 22) if di == 3 else None)
    ric = call(U.ic, msg)
    if ric[0] != "ok" or (eic is not None and ric[1] != eic):
        return "ic(%s) -> %r, encoded DI %d -> %s" % (msg, ric, di, eic)
    if call(U.pr, msg) != ("ok", None):
        return "pr(%s) -> %r on UF%d, expected None" % (msg, call(U.pr, msg), uf)
    f = call(U.uplink_fields, msg)
    if f[0] != "ok" or not isinstance(f[1], dict):
        return "uplink_fields(%s) -> %r" % (msg, f)
    snapshot = dict(f[1])
    other = upl(11, (sd & 0xFFFF) << 7 | rr, 56, c["ctx_addr"] ^ 0x5A5A5A)
    call(U.uplink_fields, other)       # decoding another interrogation must not change a result the caller still holds
    call(U.uplink_icao, msg)
    if f[1] != snapshot:
        return "the dict returned by uplink_fields(%s) changed from %r to %r after another interrogation was decoded" % (msg, snapshot, f[1])
    if call(U.uplink_fields, msg) != ("ok", snapshot) or call(U.bds, msg) != call(U.bds, msg):
        return "uplink_fields(%s) -> %r on a repeated call, first %r" % (msg, call(U.uplink_fields, msg), snapshot)
    d = f[1]
    bad = []
    if d.get("DI") != di:
        bad.append("DI")
    if d.get("RR") != rr:
        bad.append("RR")
    if bool(d.get("LOS")) != elock:
        bad.append("LOS")
    if not ((nov(d.get("BDS")) and ebds is None) or d.get("BDS") == ebds):
        bad.append("BDS")
    if eic is not None and d.get("IC") != eic:
        bad.append("IC")
    if di in (3, 7) and d.get("RRS") != rrs:
        bad.append("RRS")
    if bad:
        return "uplink_fields(%s) = %r disagrees on %s with the encoded RR %d DI %d RRS %d IC %s lockout %r" % (msg, d, bad, rr, di, rrs, eic, elock)
    note.evals = 7
    note.cls("UF%d" % uf, "DI%d" % di)
    note.nt(bool(rr or di or sd), key=[uf, rr, di, sd])
    return None


def enum_alluf(ctx):
    idx = 0
    for uf in range(32):
        for j in range(6 if ctx.tier == "quick" else 80):
            idx += 1
            if ctx.mine(idx):
                rng = ctx.rng("uf", uf, j)
                n = 112 if uf >= 16 else 56
                yield {"uf": uf, "ctx_body": rng.getrandbits(n - 29), "ctx_addr": gen.addr24(rng), "hc": rng.choice("ULM")}


def chk_alluf(c, note):
    uf = c["uf"]
    n = 112 if uf >= 16 else 56
    msg = upl(uf, c["ctx_body"], n, c["ctx_addr"], c["hc"])
    if call(U.uf, msg) != ("ok", min(uf, 24)):
        return "uf(%s) -> %r, expected %d" % (msg, call(U.uf, msg), min(uf, 24))
    r = call(U.uplink_icao, msg)
    if r[0] != "ok" or r[1].upper() != "%06X" % c["ctx_addr"]:
        return "uplink_icao(%s) -> %r, address %06X" % (msg, r, c["ctx_addr"])
    if uf not in RC:
        for fn in (U.bds, U.lockout):
            if call(fn, msg) != ("ok", None):
                return "%s(%s) on UF%d -> %r, expected None" % (fn.__name__, msg, uf, call(fn, msg))
        if uf != 11 and call(U.ic, msg) != ("ok", None):
            return "ic(%s) on UF%d -> %r, expected None" % (msg, uf, call(U.ic, msg))
    if uf != 11 and call(U.pr, msg) != ("ok", None):
        return "pr(%s) on UF%d -> %r, expected None" % (msg, uf, call(U.pr, msg))
    f = call(U.uplink_fields, msg)
    if f[0] != "ok" or not isinstance(f[1], dict):
        return "uplink_fields(%s) -> %r" % (msg, f)
    note.evals = 6
    note.cls("UF%d" % uf)
    note.nt(True)
    return None



# ---------------------------------------------------------------- volume: one process, very many distinct interrogations, revisits
def vol_step(a, b, k):
    uf = RC[a & 3]
    rr, di, sd = (a >> 3) & 31, (a >> 8) & 7, (a >> 11) & 0xFFFF
    n = 56 if uf in (4, 5) else 112
    body = (((a >> 27) & 7) << 24) | (rr << 19) | (di << 16) | sd
    if n == 112:
        body = (body << 56) | (b >> 8)
    addr = (a >> 30) & 0xFFFFFF
    msg = upl(uf, body, n, addr, "L" if a & 4 else "U")
    fld = lambda x, y: (sd >> (32 - y)) & ((1 << (y - x + 1)) - 1)
    rrs = fld(21, 24) if di == 7 else (fld(24, 27) if di == 3 else 0)
    ebds = "%X%X" % (rr - 16, rrs) if rr > 15 else None
    r = call(U.bds, msg)
    if r != ("ok", ebds):
        return "bds(%s) -> %r, encoded RR %d DI %d RRS %d -> %r" % (msg, r, rr, di, rrs, ebds)
    eic = "II%d" % fld(17, 20) if di in (0, 1, 7) else ("SI%d" % fld(17, 22) if di == 3 else None)
    r = call(U.ic, msg)
    if r[0] != "ok" or (eic is not None and r[1] != eic):
        return "ic(%s) -> %r, encoded DI %d -> %s" % (msg, r, di, eic)
    elock = bool((sd >> 6) & 1) if di in (1, 7) else (bool((sd >> 9) & 1) if di == 3 else False)
    r = call(U.lockout, msg)
    if r[0] != "ok" or r[1] is None or bool(r[1]) != elock:
        return "lockout(%s) -> %r, encoded DI %d -> %r" % (msg, r, di, elock)
    f = call(U.uplink_fields, msg)
    if f[0] != "ok" or not isinstance(f[1], dict) or f[1].get("DI") != di or f[1].get("RR") != rr:
        return "uplink_fields(%s) -> %r, encoded RR %d DI %d" % (msg, f, rr, di)
    r = call(U.uplink_icao, msg)
    if r[0] != "ok" or not isinstance(r[1], str) or r[1].upper() != "%06X" % addr:
        return "uplink_icao(%s) -> %r, interrogated address %06X" % (msg, r, addr)
    return None


# ---------------------------------------------------------------- first calls of a freshly imported package, four threads at once
def first_jobs(rng):
    jobs = []
    for _ in range(30):
        n = rng.choice([56, 112])
        addr = gen.addr24(rng)
        msg = frames.tohex(crc24.uplink_frame(rng.getrandbits(n - 24), n - 24, addr), n, rng.choice("UL"))
        jobs.append(("decoder.uplink.uplink_icao", (msg,), (lambda got, a=addr: None if got[0] == "ok" and isinstance(got[1], str) and got[1].upper() == "%06X" % a else "interrogated address %06X" % a)))
        pr, icf, cl = rng.getrandbits(4), rng.getrandbits(4), rng.randrange(5)
        m11 = upl(11, (pr << 23) | (icf << 19) | (cl << 16) | rng.getrandbits(16), 56, gen.addr24(rng))
        jobs.append(("decoder.uplink.pr", (m11,), ("ok", pr)))
        jobs.append(("decoder.uplink.uf", (m11,), ("ok", 11)))
    return jobs


LEGS = [
    variants.first_use_leg(first_jobs),
    volume.leg(vol_step, 40000, 1200000, "40 000 (thorough: 1.2 million per process) distinct roll-call interrogations in one process; identical frames decoded again after 4100 ... 1 050 000 others; four concurrent callers at the end"),
    Leg("special_addresses", chk_icao, enum=enum_special, exhaustive=True,
        doc="addresses that are boundary values or CRC constants, and the addresses whose modified form G(x)A(x) is one, x both lengths x payloads 0 / 1 / random"),
    Leg("uplink_icao", chk_icao, strategy=s_icao, quick=20000, thorough=1500000, doc="address recovery through the uplink AP encoder"),
    Leg("uf11", chk_uf11, enum=enum_uf11, exhaustive=True, doc="PR x IC x CL"),
    Leg("rollcall", chk_rc, enum=enum_rc, exhaustive=False, doc="UF4/5/20/21 x RR x DI x SD"),
    Leg("all_uf", chk_alluf, enum=enum_alluf, exhaustive=False, doc="every UF 0..31"),
]
