"""Shared generators for the CPR properties (C03, C04, C05, C17)."""
import math

from hypothesis import strategies as st

from ref import cpr
from vlib import gen

SIGN = st.sampled_from([1, -1])
TRANS_VALUES = sorted(cpr.TRANS.values())


@st.composite
def latitudes(draw, maxabs=90.0):
    kind = draw(st.sampled_from(["u", "u", "u", "trans", "trans", "special"]))
    if kind == "u":
        lat = draw(st.one_of(gen.ufloat(-maxabs, maxabs), gen.ufloat(-maxabs, maxabs), st.floats(-maxabs, maxabs, allow_nan=False)))
    elif kind == "trans":
        t = draw(st.sampled_from(TRANS_VALUES))
        d = draw(st.one_of(st.sampled_from([0.0, 1e-9, -1e-9, 1e-6, -1e-6, 1e-4, -1e-4, 3e-4, -3e-4]), gen.ufloat(-0.01, 0.01)))
        lat = draw(SIGN) * (t + d)
    else:
        c = draw(st.sampled_from([0.0, 87.0, 90.0]))
        d = draw(st.sampled_from([0.0, 1e-7, -1e-7, 5e-4, -5e-4, 1e-3, -1e-3, 0.05, -0.05]))
        lat = draw(SIGN) * (c + d)
    return max(-maxabs, min(maxabs, lat))


def wrap_lon(lon):
    lon = (lon + 180.0) % 360.0 - 180.0
    return lon


@st.composite
def longitudes(draw):
    kind = draw(st.sampled_from(["u", "u", "special"]))
    if kind == "u":
        lon = draw(st.one_of(gen.ufloat(-180, 180), gen.ufloat(-180, 180), st.floats(-180, 180, allow_nan=False, exclude_max=True)))
    else:
        c = draw(st.sampled_from([0.0, 90.0, -90.0, 180.0, -180.0]))
        d = draw(st.sampled_from([0.0, 1e-6, -1e-6, 1e-3, -1e-3, 0.05, -0.05]))
        lon = c + d
    return wrap_lon(lon)


def displace(lat, lon, dist_nm, bearing_deg):
    """Small-displacement move (flat-earth in the local tangent plane, verified with haversine by the caller)."""
    dlat = dist_nm * math.cos(math.radians(bearing_deg)) / 60.0
    c = max(math.cos(math.radians(lat)), 1e-9)
    dlon = dist_nm * math.sin(math.radians(bearing_deg)) / (60.0 * c)
    lat2 = lat + dlat
    if lat2 > 90 or lat2 < -90:
        lat2 = lat - dlat
    if abs(dlon) > 180:
        dlon = 0.0
    return lat2, wrap_lon(lon + dlon)


@st.composite
def near_pairs(draw, max_nm, maxabs=90.0):
    lat = draw(latitudes(maxabs))
    lon = draw(longitudes())
    if draw(gen.uint(0, 9)) < 3:
        return lat, lon, lat, lon
    d = draw(st.one_of(gen.ufloat(0, max_nm * 0.999), gen.ufloat(0, max_nm * 0.999), st.just(max_nm * 0.999)))
    b = draw(st.one_of(gen.ufloat(0, 360), gen.ufloat(0, 360), st.sampled_from([0.0, 90.0, 180.0, 270.0])))
    lat2, lon2 = displace(lat, lon, d, b)
    lat2 = max(-maxabs, min(maxabs, lat2))
    if cpr.haversine_m(lat, lon, lat2, lon2) > max_nm * cpr.NM:
        lat2, lon2 = lat, lon
    return lat, lon, lat2, lon2


TIMES = st.one_of(
    st.sampled_from([(0, 1), (1, 0), (5, 5), (1000.0, 1000.5), (1000.5, 1000.0), (0, 9.99), (9, 0), (10.25, 10.75), (10.75, 10.25), (7.000001, 7.0)]),
    st.tuples(gen.uint(0, 10 ** 6), gen.uint(0, 10 ** 6)),
    # integer stamps too large for a double to tell apart (nanoseconds since 1970, counters): one tick apart, either order
    st.sampled_from([(2 ** 60 + 1, 2 ** 60), (2 ** 60, 2 ** 60 + 1), (1700000000123456789, 1700000000123456790), (1700000000123456790, 1700000000123456789),
                     (2 ** 53 + 1, 2 ** 53), (2 ** 53, 2 ** 53 + 1)]),
)


import os as _os
import time as _time

# naive datetime stamps are ordered by their wall-clock fields, whatever the host's zone is: pin a zone with DST so that a decoder that
# detours through local time (datetime.timestamp()) is seen to misorder stamps around the spring-forward gap
_os.environ["TZ"] = "CET-1CEST,M3.5.0,M10.5.0/3"
_time.tzset()


def as_time(t, mode):
    """The decoders document int or datetime time stamps.  mode 0/False: number; 1/True: naive datetime; 2: naive datetimes in the hour that
    does not exist on 2024-03-31 in the pinned zone (02:59:5x ... 03:00:0x), where local-time conversions are not monotone."""
    if not mode or (isinstance(t, int) and t > 10 ** 9 and mode in (1, 2)):
        return t
    if mode in (3, 4):  # time stamps taken from a numpy array / a pandas column (mode 4: an unsigned column where the value allows it)
        import numpy as np
        if mode == 4 and isinstance(t, int) and 0 <= t < 2 ** 32:
            return np.uint64(t) if t % 2 == 0 else np.uint32(t)
        return np.float64(t) if isinstance(t, float) else np.int64(t)
    import datetime
    if mode == 2:
        return datetime.datetime(2024, 3, 31, 2, 59, 55) + datetime.timedelta(seconds=t % 10.0)
    return datetime.datetime(2024, 5, 17, 12, 0, 0) + datetime.timedelta(seconds=t)


def time_key(t, mode):
    """the ordering the property talks about: the stamps themselves"""
    return t % 10.0 if mode == 2 and not (isinstance(t, int) and t > 10 ** 9) else t


def round_position(draw, par, surface):
    """a position whose CPR fields (for a frame of parity `par`) are round binary numbers - multiples of 4096, zero included:
    1/32 fractions of a latitude and of a longitude zone"""
    from ref import cpr
    base = 90.0 if surface else 360.0
    frac = st.one_of(st.sampled_from([0, 0, 0, 16, 1, 31]), gen.uint(0, 31))
    dlat = base / (60 - par)
    jmax = int(86.0 / dlat)
    lat = dlat * (draw(gen.uint(-jmax, jmax)) + draw(frac) / 32.0)
    lat = max(-86.0, min(86.0, lat))
    dlon = base / max(cpr.NL(lat) - par, 1)
    kmax = int(179.0 / dlon)
    lon = dlon * (draw(gen.uint(-kmax, kmax)) + draw(frac) / 32.0)
    return lat, lon


def tie_longitudes(glon):
    """reference longitudes (all but) exactly half-way between two of the four surface longitude candidates glon + 90 q"""
    import math
    out = []
    for k in range(4):
        centre = (glon % 90.0) + 90.0 * k - 45.0
        for j in (-3, -2, -1, 0, 1, 2, 3):
            lr = centre
            for _ in range(abs(j)):
                lr = math.nextafter(lr, math.inf if j > 0 else -math.inf)
            out.append(wrap_lon(lr))
    return out
