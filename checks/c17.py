"""C17 - Live aircraft table: robust, correct positions, bounded staleness."""
import csv
import math
import os
import random
import shutil
import tempfile

from hypothesis import strategies as st
from hypothesis.stateful import RuleBasedStateMachine, initialize, precondition, rule

import pyModeS as pms
from pyModeS.streamer.decode import Decode
from ref import cpr, frames
from ref import doc9871 as D
from vlib import gen
from vlib.core import Leg, call
from checks import cprcommon as cg
from checks.c05 import destination

PROPERTY = "C17"
RULE = ("rule-based state machine that owns the clock: a receiver (|lat| <= 70, dense at the equator / lon 0 / antimeridian), up to 4 trajectory aircraft "
        "(airborne <= 600 kt anywhere incl. poles and NL transitions, or surface <= 50 kt within 30 NM of the receiver; addresses with hex letters) and up to 3 "
        "noise addresses; rules: advance(dt in {0, <10, 10-180, 180-400, 58-62}), position(ac, parity), ident, velocity, target-state, operational status "
        "(version 0-2), Comm-B (valid BDS 5,0 / 6,0 / 4,4 or random; known or unknown address), noise DF17/18/20/21 with random payloads, surface<->airborne "
        "toggles, turns, flush (process_raw with tnow >= last timestamp, batches of one or many). Two Decode instances get the same history in upper and lower "
        "case. After every flush: no exception; listing rule (<= 59 s silent -> listed, > 61 s -> absent, in between adopt); no record for an address never seen "
        "in ADS-B and BDS 5,0 data attached for listed ones; the two tables are equal after upper-casing; every stored position whose tpos is the timestamp of "
        "a position message is within max(0.001 deg, one CPR step) of the true position at that message (lon mod 360). non-trivial = history with a global and "
        "a reference decode, an eviction, a Comm-B merge, or a crossing of an NL band / equator / antimeridian"
        " Also: histories starting at 1000, 0, negative or 1.7e9 seconds, process_raw called three times less than a second apart across 59-61 s of silence, a decoder created without a receiver position, every third Comm-B reply with identical header bits, and the repository's real reception log replayed in batches of 1/2/5/17 s (leg real_traffic); crowds of 40-5300 further aircraft, squitters that arrive with a damaged parity field (their sender was heard all the same), a decoder with dumpto=<scratch directory>, messages with equal time stamps with and without a vertical rate / an altitude, pairs after a 20-minute position gap at 600 kt, a frame bit-identical to the one sent a whole CPR zone earlier (rule zone_walk), Comm-B replies from unknown addresses that differ from a tracked one by a register number in the top byte or by one bit, BDS 3,0 reports naming tracked aircraft as the threat. Further invariants: a call changes only the records of the aircraft that sent something in it; a stored position that changed in a call is within tolerance of the true position at one of that aircraft's position messages of the call."
        ' Also: TC 20-22 positions, the T bit, Comm-B replies valid as BDS 5,0 and 6,0 at once, a libFuzzer campaign over step lists in the thorough tier.')
ASSUMPTIONS = ["timestamps non-decreasing and tnow >= every timestamp of the batch", "surface aircraft stay within 30 NM of the receiver (surface CPR needs the receiver within 45 NM)",
               "noise messages use addresses distinct from the trajectory aircraft", "a Comm-B reply counts as 'heard' only for an address the table listed at that moment",
               "the zmq/multiprocessing plumbing and the curses screen of modeslive are not run",
               "records carry no per-call housekeeping: a message concerns the record of its sender only (as in the pinned code)"]

ADDRS = [0xABCDEF, 0x4840D6, 0xA0B1C2, 0xFEDCBA, 0x3C6DEA, 0x00AB0F]
NOISE = [0x7C1B2A, 0x111111, 0xEEEEEE]
UNKNOWN = [0x123ABC, 0xDDDDDD]
KT_NM_PER_S = 1.0 / 3600.0


def mix(*a):
    return random.Random(repr(a))


class Violation(Exception):
    pass


AIR_TCS = list(range(9, 19)) + [20, 21, 22]   # barometric and GNSS-height airborne position type codes


class Sim:
    """Plain-Python model + driver; every method takes JSON-able arguments (so a step list replays without Hypothesis)."""

    def __init__(self):
        self.now = 1000.0
        self.rx = None
        self.acs = {}
        self.batch_a, self.batch_c = [], []
        self.dec = None
        self.last_heard = {}
        self.listed = set()
        self.pos_log = {}
        self.ever_adsb = set()
        self.stats = {"global": 0, "ref": 0, "evict": 0, "merge": 0, "cross": 0, "flush": 0, "msgs": 0, "crowd": 0, "dump": 0}
        self.dumpdir = None
        self.dump_off = 0
        self.prev_pos = {}

    # ---- steps
    def init(self, lat, lon, t_start=1000.0, rx_known=True, dump=False):
        self.now = t_start
        self.rx = (lat, lon)
        # the decoder may run without a receiver position (surface pairs then cannot be decoded globally, nothing else changes);
        # the first decoder may write its CSV dump (Decode(dumpto=<directory>), the modeslive --dumpto option) into a scratch directory
        kw = {"latlon": (lat, lon)} if rx_known else {}
        if dump:
            self.dumpdir = tempfile.mkdtemp(prefix="pmsdump-")
            self.dec = (Decode(dumpto=self.dumpdir, **kw), Decode(**kw))
        else:
            self.dec = (Decode(**kw), Decode(**kw))

    def close(self):
        if self.dumpdir:
            shutil.rmtree(self.dumpdir, ignore_errors=True)
            self.dumpdir = None

    def _dump_rows(self):
        """rows the first decoder appended to its dump since the last look"""
        rows = []
        for fn in sorted(os.listdir(self.dumpdir)):
            with open(os.path.join(self.dumpdir, fn), newline="") as f:
                rows += list(csv.reader(f))
        new = rows[self.dump_off:]
        self.dump_off = len(rows)
        return new

    def add_aircraft(self, idx, near, lat, lon, dist, brg, trk, spd, mode):
        addr = ADDRS[idx % len(ADDRS)]
        if addr in self.acs or len(self.acs) >= 4:
            return
        if near or mode == "sfc":
            lat, lon = destination(self.rx[0], self.rx[1], dist, brg)
        if mode == "sfc":
            spd = min(spd, 50.0)
        self.acs[addr] = {"lat": lat, "lon": lon, "trk": trk, "spd": spd, "mode": mode}
        self.pos_log[addr] = {}

    def advance(self, dt):
        self.now += dt
        for addr, ac in self.acs.items():
            d = ac["spd"] * dt * KT_NM_PER_S
            if d <= 0:
                continue
            olat, olon = ac["lat"], ac["lon"]
            nlat, nlon = destination(olat, olon, d, ac["trk"])
            if ac["mode"] == "sfc" and cpr.haversine_m(nlat, nlon, self.rx[0], self.rx[1]) > 30 * cpr.NM:
                ac["trk"] = (ac["trk"] + 180.0) % 360.0
                nlat, nlon = destination(olat, olon, d, ac["trk"])
                if cpr.haversine_m(nlat, nlon, self.rx[0], self.rx[1]) > 30 * cpr.NM:
                    nlat, nlon = olat, olon
            if (olat > 0) != (nlat > 0) or abs(olon - nlon) > 180 or cpr.NL(olat) != cpr.NL(nlat):
                self.stats["cross"] += 1
            ac["lat"], ac["lon"] = nlat, nlon

    def turn(self, idx, trk, spd):
        ac = self._ac(idx)
        if ac:
            ac["trk"] = trk
            ac["spd"] = min(spd, 50.0) if ac["mode"] == "sfc" else spd

    def toggle(self, idx):
        ac = self._ac(idx)
        if not ac:
            return
        if ac["mode"] == "air":
            if cpr.haversine_m(ac["lat"], ac["lon"], self.rx[0], self.rx[1]) <= 25 * cpr.NM:
                ac["mode"] = "sfc"
                ac["spd"] = min(ac["spd"], 50.0)
        else:
            ac["mode"] = "air"

    def _ac(self, idx):
        keys = sorted(self.acs)
        return self.acs[keys[idx % len(keys)]] if keys else None

    def _addr(self, idx):
        keys = sorted(self.acs)
        return keys[idx % len(keys)] if keys else None

    def _emit(self, addr, me, df, kind="a", damage=0):
        # damage: 24 bits XORed into the parity field - process_raw is handed the message all the same (the reader's admission test is C01/C19's
        # subject); whoever sent it was heard
        msg = frames.tohex(frames.df17(addr, me, ca=5, df=df) ^ (damage & 0xFFFFFF), 112)
        self.batch_a.append((self.now, msg))
        self.stats["msgs"] += 1

    def position(self, idx, parity, tc_off, bits, df):
        addr = self._addr(idx)
        if addr is None:
            return
        ac = self.acs[addr]
        surface = ac["mode"] == "sfc"
        e = cpr.encode(ac["lat"], ac["lon"], parity, surface)
        if surface:
            me = cpr.me_surface(5 + tc_off % 4, parity, e["yz"], e["xz"], bits & 127, (bits >> 7) & 1, (bits >> 8) & 127, (bits >> 3) & 1)
        else:
            me = cpr.me_airborne(AIR_TCS[tc_off % 13], parity, e["yz"], e["xz"], self._alt12(bits), bits & 3, (bits >> 2) & 1, (bits >> 13) & 1)
        self.pos_log[addr][self.now] = (ac["lat"], ac["lon"], max(1e-3, e["dlat_step"]) + 1e-9, max(1e-3, e["dlon_step"]) + 1e-9)
        self._emit(addr, me, df)

    @staticmethod
    def _alt12(bits):
        if bits % 16 == 5:
            return 0      # altitude not available (all-zero code): the table stores None for it
        n = 40 + bits % 1800  # 25-ft code with Q=1: 12-bit field = n[10:4] Q n[3:0]
        return ((n >> 4) << 5) | (1 << 4) | (n & 15)

    def ident(self, idx, seed):
        addr = self._addr(idx)
        if addr is None:
            return
        r = mix("id", seed)
        cs = 0
        for _ in range(8):
            cs = (cs << 6) | r.choice(list(range(1, 27)) + [32] + list(range(48, 58)))
        self._emit(addr, ((1 + seed % 4) << 51) | ((seed >> 3 & 7) << 48) | cs, 17)

    def velocity(self, idx, seed):
        addr = self._addr(idx)
        if addr is None:
            return
        r = mix("v", seed)
        vr = r.getrandbits(11)
        if seed % 4 == 0:
            vr &= 0x600   # vertical rate not available (all-zero 9-bit field) in a quarter of the velocity messages
        me = frames.me_from([(19, 5), (r.randint(1, 4), 3), (r.getrandbits(5), 5), (r.getrandbits(1), 1), (r.randint(0, 1023), 10), (r.getrandbits(1), 1),
                             (r.randint(0, 1023), 10), (vr, 11), (r.getrandbits(10), 10)])
        self._emit(addr, me, 17)

    def crowd(self, n, seed):
        """n further aircraft (addresses of their own, 0x5xxxxx) each heard once at the current time with an identification message"""
        base = 0x500000 + (seed % 8) * 0x4000
        for i in range(n):
            cs = 0
            for k in range(8):
                cs = (cs << 6) | (1 + (i * 7 + k * 3 + seed) % 26)
            self._emit(base + i, (4 << 51) | cs, 17)
        self.stats["crowd"] = max(self.stats["crowd"], n)

    def status(self, idx, kind, seed):
        addr = self._addr(idx)
        if addr is None:
            return
        r = mix("s", seed)
        if kind == "tss":
            me = (29 << 51) | (r.getrandbits(2) << 49) | r.getrandbits(49)
        elif kind == "ops":
            me = (31 << 51) | (r.getrandbits(35) << 16) | (r.choice([0, 1, 2, 2]) << 13) | r.getrandbits(13)
        else:
            me = (28 << 51) | (r.choice([0, 1, 1, 3]) << 48) | r.getrandbits(48)
        self._emit(addr, me, 17)

    def commb(self, who, idx, kind, seed, df):
        if who == "known":
            addr = self._addr(idx)
            if addr is None:
                return
        elif who == "noise":
            addr = NOISE[idx % len(NOISE)]
        elif who == "related":
            # a transponder never heard on ADS-B whose address differs from a tracked one by a register number in the top byte (the data-parity /
            # BDS overlay of Annex 10 folds BDS1,BDS2 into those bits), by one bit, or by its byte order
            base = self._addr(idx)
            if base is None:
                return
            twist = [0x10, 0x17, 0x20, 0x30, 0x40, 0x44, 0x45, 0x50, 0x60][seed % 9] << 16 if seed % 4 else [1, 0x800000, 0x000100][seed % 3]
            addr = base ^ twist
            if addr in self.acs or addr in NOISE:
                return
        else:
            addr = UNKNOWN[idx % len(UNKNOWN)]
        r = mix("cb", seed)
        if kind == "bds50":
            mb = 0
            for (st_, sg, first, last, val) in ((1, 2, 3, 11, r.randint(0, 200)), (12, 13, 14, 23, r.randint(0, 1023)), (24, None, 25, 34, r.randint(50, 290)),
                                                (35, 36, 37, 45, r.randint(0, 100)), (46, None, 47, 56, 0)):
                mb = D.place(mb, st_, st_, 1)
                mb = D.place(mb, first, last, val)
                if sg:
                    mb = D.place(mb, sg, sg, r.getrandbits(1) if first != 3 else 0)
            gs = D.getbits(mb, 25, 34)
            mb = D.place(mb, 47, 56, max(1, min(300, gs + r.randint(-40, 40))))
        elif kind == "bds60":
            mb = 0
            for (st_, sg, first, last, val) in ((1, 2, 3, 12, r.randint(0, 1023)), (13, None, 14, 23, r.randint(150, 340)), (24, None, 25, 34, r.randint(60, 220)),
                                                (35, 36, 37, 45, r.randint(0, 90)), (46, 47, 48, 56, r.randint(0, 90))):
                mb = D.place(mb, st_, st_, 1)
                mb = D.place(mb, first, last, val)
        elif kind == "both":
            # a payload that satisfies the BDS 5,0 and the BDS 6,0 layout at once (roll = heading, track = IAS, GS = Mach, TAS = inertial rate, all inside both envelopes):
            # infer() names both registers and the decoder has to cope with the ambiguity, whatever it knows about the aircraft at that moment
            g = r.randint(100, 180)
            mb = 0
            for (st_, first, last, val) in ((1, 3, 11, r.randint(0, 200)), (12, 12, 12, 1), (13, 14, 23, r.randint(150, 450)), (24, 25, 34, g),
                                            (35, 37, 45, r.randint(0, 60)), (46, 48, 56, r.randint(max(50, g - 60), min(187, g + 60)))):
                mb = D.place(D.place(mb, st_, st_, 1), first, last, val)
        elif kind == "bds30":
            # ACAS resolution advisory report naming a threat by its 24-bit address (TTI = 1): another tracked aircraft, the sender itself, or anyone
            keys = sorted(self.acs)
            tid = r.choice(keys + [addr]) if keys and seed % 5 else r.getrandbits(24)
            ara = (r.getrandbits(7) << 7) | r.randrange(48)
            mb = (0x30 << 48) | (ara << 34) | (r.getrandbits(4) << 30) | (r.getrandbits(2) << 28) | (1 << 26) | (tid << 2)
        elif kind == "bds44":
            mb = r.getrandbits(56)
        else:
            mb = r.getrandbits(56)
        head = r.getrandbits(27) if seed % 3 else 0x0000B38   # every third reply carries the same FS/DR/UM/altitude bits, whoever sends it
        msg = frames.tohex(frames.commb(df, addr, mb, head), 112)
        self.batch_c.append((self.now, msg, addr))
        self.stats["msgs"] += 1

    def noise(self, idx, df, seed):
        addr = NOISE[idx % len(NOISE)]
        r = mix("n", seed)
        self._emit(addr, r.getrandbits(56), df, damage=r.getrandbits(24) if seed % 3 == 0 else 0)   # every third one arrives with a damaged parity field

    # ---- flush + invariants
    def flush(self):
        if self.dec is None:
            return
        tnow = self.now
        a_ts = [t for t, m in self.batch_a]
        a_msg = [m for t, m in self.batch_a]
        c_ts = [t for t, m, a in self.batch_c]
        c_msg = [m for t, m, a in self.batch_c]
        before = set(self.dec[0].acs.keys())
        # a message concerns the record of its sender only: whoever sent nothing in this call keeps its record as it was
        frozen = {k: repr(sorted(((str(a), repr(b)) for a, b in v.items()))) for k, v in self.dec[0].acs.items()} if len(self.dec[0].acs) <= 64 else {}
        senders = {"%06X" % int(m[2:8], 16) for _t, m in self.batch_a} | {"%06X" % a for _t, _m, a in self.batch_c}
        for k, dec in enumerate(self.dec):
            f = (lambda s: s) if k == 0 else (lambda s: s.lower())
            r = call(dec.process_raw, list(a_ts), [f(m) for m in a_msg], list(c_ts), [f(m) for m in c_msg], tnow)
            if r[0] != "ok":
                raise Violation("process_raw raised %r on ADS-B batch %r, Comm-B batch %r, tnow=%r (%s-case input)" % (
                    r[1:], list(zip(a_ts, a_msg)), list(zip(c_ts, c_msg)), tnow, "upper" if k == 0 else "lower"))
        self.stats["flush"] += 1
        for k_, was in frozen.items():
            rec = self.dec[0].acs.get(k_)
            if rec is not None and k_ not in senders:
                now_ = repr(sorted(((str(a), repr(b)) for a, b in rec.items())))
                if now_ != was:
                    raise Violation("the record of %s changed in a call in which it sent nothing (ADS-B %r, Comm-B %r): %s -> %s" % (
                        k_, [m for _t, m in self.batch_a][:4], [(m, "%06X" % a) for _t, m, a in self.batch_c][:4], was[:300], now_[:300]))
        dumped = self._dump_rows() if self.dumpdir else []
        # model update
        batch_adsb_addrs = set()
        for t, m in self.batch_a:
            addr = "%06X" % int(m[2:8], 16)
            batch_adsb_addrs.add(addr)
            self.ever_adsb.add(addr)
            self.last_heard[addr] = max(self.last_heard.get(addr, t), t)
        merged = []
        for t, m, a in self.batch_c:
            addr = "%06X" % a
            if addr in self.listed or addr in batch_adsb_addrs:
                self.last_heard[addr] = max(self.last_heard.get(addr, t), t)
                merged.append((t, m, addr))
        table = self.dec[0].acs
        keys = set(table.keys())
        for k in keys:
            if k not in self.ever_adsb:
                raise Violation("table lists %r, an address never seen in an ADS-B message (Comm-B / history: %r)" % (k, c_msg))
        for row in dumped:
            self.stats["dump"] += 1
            if len(row) != 4 or row[1].upper() not in self.ever_adsb:
                raise Violation("dump row %r: not [time, address, field, value] for an address seen in ADS-B (batches %r / %r)" % (row, a_msg[:5], c_msg[:5]))
        newlisted = set()
        for addr, th in self.last_heard.items():
            was = addr in self.listed or addr in batch_adsb_addrs
            silent = tnow - th
            if was and silent <= 59 and addr not in keys:
                raise Violation("aircraft %s heard %.3f s ago (<= 59 s) is not listed after process_raw(tnow=%r)" % (addr, silent, tnow))
            if silent > 61 and addr in keys:
                raise Violation("aircraft %s silent for %.3f s (> 61 s) is still listed after process_raw(tnow=%r)" % (addr, silent, tnow))
            if addr in keys:
                newlisted.add(addr)
        self.stats["evict"] += len((before | batch_adsb_addrs) - keys)
        self.listed = newlisted
        # Comm-B attachment for listed aircraft (inference decided by the library itself)
        for t, m, addr in merged:
            if addr in keys and pms.bds.infer(m) == "BDS50" and (pms.commb.tas50(m) or pms.commb.gs50(m)):
                self.stats["merge"] += 1
                later = [t2 for t2, m2, a2 in merged if a2 == addr and t2 >= t and pms.bds.infer(m2) == "BDS50"]
                if table[addr].get("t50") not in later:
                    raise Violation("BDS 5,0 reply %s for listed aircraft %s (t=%r) was not attached: t50=%r" % (m, addr, t, table[addr].get("t50")))
        # case independence
        up = _norm(self.dec[0].acs)
        lo = _norm(self.dec[1].acs)
        if up != lo:
            diff = [k for k in set(up) | set(lo) if up.get(k) != lo.get(k)]
            raise Violation("tables differ between upper- and lower-case input for %r: %r vs %r" % (diff[:3], {k: up.get(k) for k in diff[:1]}, {k: lo.get(k) for k in diff[:1]}))
        # positions.  Which message caused an update is taken from the history itself, not from a field of the record: a stored position
        # that differs from the one stored before this call was written by one of this call's position messages of that aircraft.
        batch_times = {}
        for t, m in self.batch_a:
            batch_times.setdefault(int(m[2:8], 16), set()).add(t)
        for addr, log in self.pos_log.items():
            key = "%06X" % addr
            if key not in table or table[key].get("lat") is None:
                self.prev_pos.pop(addr, None)
                continue
            lat, lon = table[key]["lat"], table[key]["lon"]
            if self.prev_pos.get(addr) != (lat, lon):
                cands = [(t,) + log[t] for t in sorted(batch_times.get(addr, ())) if t in log]
                if not any(abs(lat - tl) <= tollat and cpr.lon_diff(lon, to) <= tollon for (_t, tl, to, tollat, tollon) in cands):
                    raise Violation("aircraft %s: this call stored (%r, %r); its position messages in the call and the true positions at them: %r" % (
                        key, lat, lon, [(t_, round(tl, 5), round(to, 5)) for (t_, tl, to, _a, _b) in cands]))
                self.stats["ref"] += 1
            self.prev_pos[addr] = (lat, lon)
            if table[key].get("tpos") in log:   # the record's own note of the update time, where it keeps one
                tl, to, tollat, tollon = log[table[key]["tpos"]]
                if abs(lat - tl) > tollat or cpr.lon_diff(lon, to) > tollon:
                    raise Violation("aircraft %s: table stores (%r, %r) for the position message at t=%r, true position (%r, %r) (tolerance %.5f/%.5f deg)" % (
                        key, lat, lon, table[key]["tpos"], tl, to, tollat, tollon))
        self.batch_a, self.batch_c = [], []

    def run(self, steps):
        for name, args in steps:
            getattr(self, name)(*args)


def _norm(acs):
    def n(v):
        if isinstance(v, str):
            return v.upper()
        if isinstance(v, float):
            return round(v, 9)
        if isinstance(v, (list, tuple)):
            return [n(x) for x in v]
        return v
    return {str(k).upper(): {str(k2): n(v2) for k2, v2 in rec.items()} for k, rec in acs.items()}


def chk_history(case, note):
    sim = Sim()
    try:
        sim.run(case["steps"])
        sim.flush()
    except Violation as v:
        return str(v)
    finally:
        sim.close()
    s = sim.stats
    note.evals = max(1, s["flush"])
    note.cls("flushes:%d" % min(s["flush"], 9), "aircraft:%d" % len(sim.acs))
    for k in ("evict", "merge", "cross", "ref", "dump"):
        if s[k]:
            note.cls("with-" + k)
    note.nt(bool(s["ref"] and (s["evict"] or s["merge"] or s["cross"])) or s["ref"] > 3)
    return None


# ---------------------------------------------------------------------------- Hypothesis machine (thin wrapper that logs plain steps)
DT = st.one_of(st.just(0.0), gen.ufloat(0, 10), gen.ufloat(0, 10), gen.ufloat(10, 180), gen.ufloat(180, 400), gen.ufloat(58, 62), st.sampled_from([9.99, 10.0, 59.0, 61.0, 179.9, 180.0]))
IDX = st.integers(0, 3)
SEED = gen.ubits(32)
RXLAT = st.one_of(gen.ufloat(-70, 70), st.sampled_from([0.0, 0.2, -0.2, 52.0, -33.9, 69.9]), gen.ufloat(-0.4, 0.4))
RXLON = st.one_of(gen.ufloat(-180, 180), st.sampled_from([0.0, 0.1, -0.1, 179.9, -179.9, 180.0 - 1e-6, 90.0]), gen.ufloat(179.6, 180).map(cg.wrap_lon))


class Machine(RuleBasedStateMachine):
    BEST = None          # smallest failing step list seen so far: (steps, problem)
    T_FAIL = None
    BUDGET = 25.0
    COLLECT = []         # one entry per finished example: (hash of steps, stats, n aircraft)

    def __init__(self):
        super().__init__()
        self.steps = []
        self.sim = Sim()
        self.dead = False
        self.busy = False
        self.walker = False

    def do(self, name, *args):
        import time
        if self.dead:
            return
        if Machine.T_FAIL is not None and time.time() - Machine.T_FAIL > Machine.BUDGET:
            self.dead = True  # shrink budget exhausted: stop reproducing so the shrinker terminates
            return
        self.steps.append([name, list(args)])
        try:
            getattr(self.sim, name)(*args)
        except Violation as v:
            if Machine.T_FAIL is None:
                Machine.T_FAIL = time.time()
            if Machine.BEST is None or len(self.steps) <= len(Machine.BEST[0]):
                Machine.BEST = ([list(x) for x in self.steps], str(v))
            raise

    def teardown(self):
        self.sim.close()
        if not self.dead and self.sim.dec is not None:
            keep = [list(x) for x in self.steps[:40]] if sum(1 for c in Machine.COLLECT if c[3] is not None) < 2 and self.sim.stats.get("ref") else None
            Machine.COLLECT.append((hash(repr(self.steps)), dict(self.sim.stats), len(self.sim.acs), keep))

    @initialize(lat=RXLAT, lon=RXLON, rx_known=st.sampled_from([True, True, True, False]), t_start=st.sampled_from([1000.0, 1000.0, 0.0, -0.9, -500.75, 1.7e9 + 0.5, -61.3]), dump=st.sampled_from([False, False, True]), busy=st.sampled_from([False] * 9 + [True]), walker=st.sampled_from([False] * 4 + [True]), first=st.lists(st.tuples(st.integers(0, 5), st.booleans(), cg.latitudes(), cg.longitudes(), gen.ufloat(0, 28), gen.ufloat(0, 360),
                                                               gen.ufloat(0, 360), st.one_of(gen.ufloat(0, 600), st.just(600.0)), st.sampled_from(["air", "air", "sfc"])),
                                                     min_size=1, max_size=3))
    def start(self, lat, lon, first, t_start, rx_known, dump, busy, walker):
        self.busy = busy
        self.walker = walker
        self.do("init", lat, lon, t_start, rx_known, dump)
        for a in first:
            self.do("add_aircraft", *a)

    @rule(idx=st.integers(0, 5), near=st.booleans(), lat=cg.latitudes(), lon=cg.longitudes(), dist=gen.ufloat(0, 28), brg=gen.ufloat(0, 360),
          trk=st.one_of(gen.ufloat(0, 360), st.sampled_from([0.0, 90.0, 180.0, 270.0])), spd=st.one_of(gen.ufloat(0, 600), st.sampled_from([600.0, 0.0, 45.0])),
          mode=st.sampled_from(["air", "air", "sfc"]))
    def add_aircraft(self, idx, near, lat, lon, dist, brg, trk, spd, mode):
        self.do("add_aircraft", idx, near, lat, lon, dist, brg, trk, spd, mode)

    @rule(dt=DT)
    def advance(self, dt):
        self.do("advance", dt)

    @precondition(lambda self: self.sim.acs)
    @rule(idx=IDX, parity=st.integers(0, 1), tc_off=st.integers(0, 12), bits=gen.ubits(15), df=st.sampled_from([17, 17, 18]))
    def position(self, idx, parity, tc_off, bits, df):
        self.do("position", idx, parity, tc_off, bits, df)

    @precondition(lambda self: self.sim.acs)
    @rule(idx=IDX, parity=st.integers(0, 1), tc_off=st.integers(0, 12), bits=gen.ubits(15), dt=gen.ufloat(0.3, 6))
    def position_pair(self, idx, parity, tc_off, bits, dt):
        self.do("position", idx, parity, tc_off, bits, 17)
        self.do("advance", dt)
        self.do("position", idx, 1 - parity, tc_off, bits, 17)

    @precondition(lambda self: self.sim.acs)
    @rule(idx=IDX, parity=st.integers(0, 1), tc_off=st.integers(0, 12), bits=gen.ubits(15), dt=gen.ufloat(0.3, 9.9), dt2=DT)
    def pair_flush_more(self, idx, parity, tc_off, bits, dt, dt2):
        self.do("position", idx, parity, tc_off, bits, 17)
        self.do("advance", dt)
        self.do("position", idx, 1 - parity, tc_off, bits, 17)
        self.do("flush")
        self.do("advance", dt2)
        self.do("position", idx, parity, tc_off + 1, bits ^ 5, 17)
        self.do("flush")

    @precondition(lambda self: self.sim.acs)
    @rule(idx=IDX, reps=st.integers(1, 8), dt=st.one_of(gen.ufloat(20, 58), gen.ufloat(100, 400)), seed=SEED, parity=st.integers(0, 1), bits=gen.ubits(15),
          flush_between=st.booleans(), after=st.sampled_from(["one", "pair", "pair", "pair-flushed", "same-parity-twice"]), fast=st.booleans())
    def position_gap_position(self, idx, reps, dt, seed, parity, bits, flush_between, after, fast):
        """a fix, then a long stretch in which the aircraft stays listed through non-position messages, then one position message"""
        if fast:
            self.do("turn", idx, float(seed % 360), 600.0)   # far from the last fix by the end of the gap (surface aircraft keep their 50 kt)
        self.do("position", idx, parity, 2, bits, 17)
        self.do("advance", 1.0)
        self.do("position", idx, 1 - parity, 2, bits, 17)
        self.do("flush")
        for k in range(reps):
            self.do("advance", dt)
            self.do("ident", idx, seed + k)
            if flush_between and dt < 59:
                self.do("flush")
        self.do("position", idx, parity, 3, bits, 17)
        if after != "one":
            # ... and a second one shortly afterwards: with the stored fix stale, this pair (or nothing) must place the aircraft
            if after == "pair-flushed":
                self.do("flush")
            self.do("advance", 1.0 + (seed % 7))
            self.do("position", idx, parity if after == "same-parity-twice" else 1 - parity, 3, bits ^ 1, 17)
        self.do("flush")

    @precondition(lambda self: self.sim.acs)
    @rule(idx=IDX, seed=SEED, base=st.one_of(gen.ufloat(59.0, 61.0), st.sampled_from([59.95, 60.0, 60.5, 60.9])), d1=gen.ufloat(0.05, 0.99), d2=gen.ufloat(0.05, 0.99))
    def threshold_probe(self, idx, seed, base, d1, d2):
        """one message, then process_raw calls less than a second apart while the silence crosses 59-61 s"""
        self.do("ident", idx, seed)
        self.do("flush")
        self.do("advance", base)
        self.do("flush")
        self.do("advance", d1)
        self.do("flush")
        self.do("advance", d2)
        self.do("flush")

    @precondition(lambda self: self.sim.acs)
    @rule(idx=IDX, seed=SEED, which=st.sampled_from(["ident", "velocity"]))
    def info(self, idx, seed, which):
        self.do(which, idx, seed)

    @precondition(lambda self: self.sim.acs)
    @rule(idx=IDX, seed=SEED, parity=st.integers(0, 1), bits=gen.ubits(15))
    def same_stamp(self, idx, seed, parity, bits):
        """several messages of one aircraft carrying the same time stamp, with and without a vertical rate / an altitude"""
        self.do("velocity", idx, seed * 4)
        self.do("velocity", idx, seed * 4 + 1)
        self.do("position", idx, parity, 2, bits & ~15 | 5, 17)
        self.do("position", idx, parity, 2, bits & ~15 | 6, 17)
        self.do("flush")

    @precondition(lambda self: self.walker and len(self.sim.acs) < 4)
    @rule(idx=st.integers(0, 5), parity=st.integers(0, 1), axis=st.sampled_from(["north", "south", "east", "west"]), lat0=gen.ufloat(-60, 60), bits=gen.ubits(15), step=st.sampled_from([50.0, 30.0, 55.0]))
    def zone_walk(self, idx, parity, axis, lat0, bits, step):
        """an aircraft at 600 kt along a meridian (or the equator) that reports one parity only for as long as it takes to cross exactly one CPR zone
        of the other parity: the frame of that other parity it sends then is bit-identical to the one it sent a zone earlier"""
        self.walker = False
        if len(self.sim.acs) >= 4 or ADDRS[idx % len(ADDRS)] in self.sim.acs:
            return
        zone = 360.0 / (60 - parity) if axis in ("north", "south") else 360.0 / (59 - parity)
        total = zone * 360.0                      # seconds for `zone` degrees of arc at 600 kt (1 NM = 1 arc minute)
        if axis in ("north", "south"):
            # start well inside a CPR bin of both axes, far enough from the poles for the whole walk
            lat = (math.floor(lat0 / zone) + 0.3217) * zone
            lat = lat - zone * 3 if (axis == "north" and lat > 55) else (lat + zone * 3 if (axis == "south" and lat < -55) else lat)
            self.do("add_aircraft", idx, False, lat, 0.0, 0.0, 0.0, 0.0 if axis == "north" else 180.0, 600.0, "air")
        else:
            self.do("add_aircraft", idx, False, 0.0, (math.floor(lat0 / zone) + 0.3217) * zone, 0.0, 0.0, 90.0 if axis == "east" else 270.0, 600.0, "air")
        me = sorted(self.sim.acs).index(ADDRS[idx % len(ADDRS)])
        self.do("position", me, 1 - parity, 2, bits & ~15 | 6, 17)
        self.do("advance", 1.0)
        self.do("position", me, parity, 2, bits & ~15 | 6, 17)      # completes the pair: this is the frame that gets decoded, a zone before its twin
        self.do("flush")
        done = 0.0
        while total - done > step + 1.0:
            self.do("advance", step)
            done += step
            self.do("position", me, 1 - parity, 2, bits & ~15 | 6, 17)
            self.do("flush")
        self.do("advance", total - done)
        self.do("position", me, parity, 2, bits & ~15 | 6, 17)
        self.do("flush")

    @precondition(lambda self: self.busy and self.sim.stats["msgs"] < 5000)
    @rule(n=st.sampled_from([40, 300, 1030, 1500, 2100, 2100, 5300]), seed=st.integers(0, 1), dt=st.sampled_from([0.0, 5.0, 30.0]))
    def crowd(self, n, seed, dt):
        """a busy sky: hundreds to thousands of further aircraft heard within the same minute"""
        self.do("crowd", n, seed)
        self.do("advance", dt)
        self.do("flush")

    @precondition(lambda self: self.sim.acs)
    @rule(idx=IDX, kind=st.sampled_from(["tss", "ops", "ops", "emerg"]), seed=SEED)
    def status(self, idx, kind, seed):
        self.do("status", idx, kind, seed)

    @rule(who=st.sampled_from(["known", "known", "noise", "unknown", "related", "related"]), idx=IDX, kind=st.sampled_from(["bds50", "bds50", "bds60", "bds44", "random", "bds30", "bds30", "both", "both"]), seed=SEED,
          df=st.sampled_from([20, 21]))
    def commb(self, who, idx, kind, seed, df):
        self.do("commb", who, idx, kind, seed, df)

    @rule(idx=IDX, df=st.sampled_from([17, 18]), seed=SEED)
    def noise(self, idx, df, seed):
        self.do("noise", idx, df, seed)

    @precondition(lambda self: self.sim.acs)
    @rule(idx=IDX)
    def toggle(self, idx):
        self.do("toggle", idx)

    @precondition(lambda self: self.sim.acs)
    @rule(idx=IDX, trk=gen.ufloat(0, 360), spd=gen.ufloat(0, 600))
    def turn(self, idx, trk, spd):
        self.do("turn", idx, trk, spd)

    @rule()
    def flush(self):
        self.do("flush")


def enum_real(ctx):
    for k, batch_s in enumerate([1, 2, 5, 17]):
        if ctx.mine(k):
            yield {"batch_seconds": batch_s}


def chk_real(case, note):
    """the repository's real reception log (2000 DF17 frames over ~3 min, 10 000 Comm-B replies) replayed through two Decode instances
    (upper / lower case): no exception, listing rule, no record for an address never seen in ADS-B, case independence."""
    from vlib import corpus
    rows = corpus.adsb_timed()
    t0 = rows[0][0]
    cb = [(t0 + (i % 180), m) for i, (m, _a) in enumerate(corpus.commb(20)[:1500] + corpus.commb(21)[:1500])]  # Comm-B log re-timed onto the ADS-B interval
    cb.sort()
    dec = (Decode(latlon=(52.0, 4.4)), Decode(latlon=(52.0, 4.4)))
    last, ever = {}, set()
    step = case["batch_seconds"]
    t = t0
    n = 0
    while t <= rows[-1][0] + 70:
        a = [(x[0], x[1]) for x in rows if t <= x[0] < t + step]
        c = [(x[0], x[1]) for x in cb if t <= x[0] < t + step]
        tnow = t + step
        for k, d in enumerate(dec):
            f = (lambda s_: s_) if k == 0 else (lambda s_: s_.lower())
            r = call(d.process_raw, [x[0] for x in a], [f(x[1]) for x in a], [x[0] for x in c], [f(x[1]) for x in c], tnow)
            if r[0] != "ok":
                return "process_raw raised %r on real traffic at t=%r (batch of %d ADS-B, %d Comm-B)" % (r[1:], t, len(a), len(c))
        for ts, m in a:
            ad = m[2:8].upper()
            ever.add(ad)
            last[ad] = max(last.get(ad, ts), ts)
        keys = set(dec[0].acs.keys())
        for ts, m in c:
            ad = pms.icao(m)
            if ad in keys or ad in {x[1][2:8].upper() for x in a}:
                if ad in last:
                    last[ad] = max(last[ad], ts)
        for k_ in keys:
            if k_ not in ever:
                return "table lists %r, never seen in an ADS-B message (real traffic)" % k_
        for ad, th in last.items():
            if tnow - th <= 59 and ad not in keys and tnow - th >= 0:
                return "aircraft %s heard %.1f s ago is not listed at tnow=%r (real traffic)" % (ad, tnow - th, tnow)
            if tnow - th > 61 and ad in keys:
                return "aircraft %s silent for %.1f s is still listed at tnow=%r (real traffic)" % (ad, tnow - th, tnow)
        if _norm(dec[0].acs) != _norm(dec[1].acs):
            return "tables differ between upper- and lower-case real traffic at tnow=%r" % tnow
        t += step
        n += 1
    note.evals = n
    note.cls("real-traffic")
    note.nt(True)
    return None


# ------------------------------------------------------------------ coverage-guided campaign over histories (thorough tier)
_FDT = [0.0, 0.4, 1.0, 3.0, 9.99, 10.0, 12.0, 30.0, 58.0, 59.0, 59.5, 60.0, 60.5, 61.0, 62.0, 100.0, 179.9, 180.0, 181.0, 400.0]
_FT0 = [1000.0, 0.0, -0.9, -500.75, 1.7e9 + 0.5, -61.3]


def fuzz_decode(fdp):
    """bytes -> a plain step list over the primitive Sim operations, every argument inside the domain of the machine's rules
    (receiver within +-70 deg, at most four aircraft within reach, speeds up to 600 kt, non-negative time steps)"""
    def fl(lo, hi):       # two bytes per real number: 65536 evenly spaced values including both ends
        return lo + (hi - lo) * fdp.ConsumeIntInRange(0, 65535) / 65535.0
    steps = [["init", [fl(-70.0, 70.0), fl(-180.0, 180.0), _FT0[fdp.ConsumeIntInRange(0, len(_FT0) - 1)],
                       fdp.ConsumeIntInRange(0, 3) != 0, False]]]

    def aircraft():
        return ["add_aircraft", [fdp.ConsumeIntInRange(0, 5), fdp.ConsumeBool(), fl(-89.0, 89.0), fl(-180.0, 180.0), fl(0.0, 28.0), fl(0.0, 360.0), fl(0.0, 360.0),
                                 [600.0, 0.0, 45.0, 250.0, 480.0][fdp.ConsumeIntInRange(0, 4)], ["air", "air", "sfc"][fdp.ConsumeIntInRange(0, 2)]]]
    steps.append(aircraft())
    n = 0
    while fdp.remaining_bytes() > 0 and n < 80:
        n += 1
        op = fdp.ConsumeIntInRange(0, 15)
        idx = fdp.ConsumeIntInRange(0, 3)
        if op in (0, 1, 2):
            steps.append(["advance", [_FDT[fdp.ConsumeIntInRange(0, len(_FDT) - 1)]]])
        elif op in (3, 4, 5, 6):
            steps.append(["position", [idx, fdp.ConsumeIntInRange(0, 1), fdp.ConsumeIntInRange(0, 12), fdp.ConsumeIntInRange(0, (1 << 15) - 1), [17, 17, 18][fdp.ConsumeIntInRange(0, 2)]]])
        elif op == 7:
            steps.append(["ident", [idx, fdp.ConsumeIntInRange(0, (1 << 32) - 1)]])
        elif op == 8:
            steps.append(["velocity", [idx, fdp.ConsumeIntInRange(0, (1 << 32) - 1)]])
        elif op == 9:
            steps.append(["status", [idx, ["tss", "ops", "emerg"][fdp.ConsumeIntInRange(0, 2)], fdp.ConsumeIntInRange(0, (1 << 32) - 1)]])
        elif op in (10, 11):
            steps.append(["commb", [["known", "noise", "unknown", "related"][fdp.ConsumeIntInRange(0, 3)], idx,
                                    ["bds50", "bds60", "bds44", "random", "bds30", "both"][fdp.ConsumeIntInRange(0, 5)], fdp.ConsumeIntInRange(0, (1 << 32) - 1), 20 + fdp.ConsumeIntInRange(0, 1)]])
        elif op == 12:
            steps.append(["noise", [idx, 17 + fdp.ConsumeIntInRange(0, 1), fdp.ConsumeIntInRange(0, (1 << 32) - 1)]])
        elif op == 13:
            steps.append([["toggle", [idx]], ["turn", [idx, fl(0.0, 360.0), fl(0.0, 600.0)]], aircraft()][fdp.ConsumeIntInRange(0, 2)])
        else:
            steps.append(["flush", []])
    return {"steps": steps}


fuzz_check = chk_history


def enum_atheris(ctx):
    from vlib import fuzzleg
    yield from fuzzleg.campaign("c17", ctx, runs_quick=0, runs_thorough=40000, shards=6, max_len=400, extra=["-len_control=0"])


def chk_atheris(case, note):
    from vlib import fuzzleg
    return fuzzleg.judge(case, note, chk_history)


LEGS = [Leg("real_traffic", chk_real, enum=enum_real, exhaustive=False, doc="the repository's reception log replayed in batches of 1/2/5/17 s"),
        Leg("history", chk_history, quick=4000, thorough=60000, doc="rule-based state machine over message histories; replay re-executes the plain step list")]
LEGS[1].machine = Machine
LEGS[1].steps_quick = 60
LEGS[1].steps_thorough = 120
LEGS.append(Leg("atheris_history", chk_atheris, enum=enum_atheris, shards_quick=1, shards_thorough=6,
                doc="libFuzzer campaign: bytes -> step list over the primitive operations, the history oracle inside the target (thorough tier only)"))
