"""C05 - Surface CPR global decode selects the solution nearest the receiver."""
import math

from hypothesis import strategies as st

import pyModeS as pms
from ref import cpr, frames
from vlib import gen
from vlib import variants
from vlib import volume
from vlib.core import Leg, call
from checks import cprcommon as cg

PROPERTY = "C05"
RULE = ("two surface positions <= 0.2 NM apart (30% identical) encoded with the DO-260B reference encoder (19-bit, low 17 bits sent) as "
        "an even frame in msg0 and an odd frame in msg1 (the documented order), TC 5-8, both time orders; receiver drawn by bearing and "
        "distance < 44.5 NM from the target with < 44 deg of longitude difference; target latitude dense at |lat| < 0.7 deg (receiver on "
        "either side of the equator), longitude dense within 0.5 deg of 0/+-90/+-180 (receiver on either side), and at NL transitions; "
        "oracle: position()/surface_position() within one quantisation step of the newer frame's encoded position, None only if the "
        "reference NL of the two encoded latitudes differ; missing reference -> RuntimeError. non-trivial = receiver and target on "
        "opposite sides of the equator / lon 0 / +-180, or latitude within 0.02 deg of a transition"
        ' Also: int / float / datetime time stamps (incl. a DST gap), hex letter case, receivers configured in whole degrees as ints, the same strings re-decoded with exchanged time stamps, 40 000 / 300 000 distinct pairs in a row in one process with identical pairs coming back later and four concurrent callers at the end (leg volume), the first position decodes of a freshly imported package made by four threads at once (leg first_use), receivers as numpy int8-int64, receivers within 3 ulp of half-way between two longitude candidates, unsigned numpy time stamps, round CPR fields with corner fields.')
ASSUMPTIONS = ["msg0 is the even frame and msg1 the odd frame, as documented", "receiver within 45 NM great-circle of both targets and < 45 deg of longitude away",
               "pairs with an encoded latitude within 1e-9 deg of an NL transition are counted, not judged"]


def destination(lat, lon, dist_nm, brg):
    """Great-circle destination point on the sphere."""
    d = math.radians(dist_nm / 60.0)
    p1, l1, b = math.radians(lat), math.radians(lon), math.radians(brg)
    s = math.sin(p1) * math.cos(d) + math.cos(p1) * math.sin(d) * math.cos(b)
    p2 = math.asin(max(-1.0, min(1.0, s)))
    l2 = l1 + math.atan2(math.sin(b) * math.sin(d) * math.cos(p1), math.cos(d) - math.sin(p1) * math.sin(p2))
    return math.degrees(p2), cg.wrap_lon(math.degrees(l2))


@st.composite
def s_surface(draw):
    kind = draw(st.sampled_from(["any", "any", "equator", "meridian", "both", "polar", "polar"]))
    lat1, lon1, lat2, lon2 = draw(cg.near_pairs(0.2))
    if kind == "polar":
        # a target within a degree or so of a pole: 45 NM then span tens of degrees of longitude
        lat1 = draw(st.sampled_from([1, -1])) * draw(st.one_of(gen.ufloat(88.3, 89.95), gen.ufloat(88.9, 89.95)))
        lat2, lon2 = lat1, lon1
    if kind in ("equator", "both"):
        dl = lat2 - lat1
        lat1 = draw(gen.ufloat(-0.7, 0.7))
        lat2 = lat1 + dl
    if kind in ("meridian", "both"):
        do = cg.wrap_lon(lon2 - lon1)
        c = draw(st.sampled_from([0.0, 90.0, -90.0, 180.0]))
        lon1 = cg.wrap_lon(c + draw(gen.ufloat(-0.5, 0.5)))
        lon2 = cg.wrap_lon(lon1 + do)
    if cpr.haversine_m(lat1, lon1, lat2, lon2) > 0.2 * cpr.NM:
        lat2, lon2 = lat1, lon1
    corner = None
    if draw(gen.uint(0, 9)) == 0:
        # both frames at one position whose CPR fields are round binary numbers for one of the parities; movement / track fields on a corner
        lat1, lon1 = cg.round_position(draw, draw(st.integers(0, 1)), True)
        lat2, lon2 = lat1, lon1
        corner = draw(st.sampled_from([0, 0, 0x7FFF]))
    t0, t1 = draw(cg.TIMES)
    rd = draw(st.one_of(gen.ufloat(0, 44.5), gen.ufloat(0, 44.5), st.sampled_from([0.0, 44.5, 12.0])))
    if kind == "polar":
        rd = draw(st.one_of(gen.ufloat(43.8, 44.85), gen.ufloat(43.8, 44.85), gen.ufloat(40.0, 44.8), gen.ufloat(0, 44.8)))
    rb = draw(st.one_of(gen.ufloat(0, 360), gen.ufloat(0, 360), st.sampled_from([0.0, 90.0, 180.0, 270.0])))
    return {"lat0": lat1, "lon0": lon1, "lat1": lat2, "lon1": lon2, "t0": t0, "t1": t1, "rdist": rd, "rbrg": rb,
            "tc0": draw(st.integers(5, 8)), "tc1": draw(st.integers(5, 8)), "noref": draw(gen.uint(0, 29)) == 0, "as_datetime": draw(st.sampled_from([0, 0, 0, 1, 2, 3, 4, 4])), "hc": draw(gen.hexcase), "int_receiver": draw(gen.uint(0, 5)) == 0,
            "ctx_bits0": draw(gen.ubits(15)) if corner is None else corner, "ctx_bits1": draw(gen.ubits(15)) if corner is None else corner, "ctx_icao": draw(gen.addresses),
            "df": draw(st.sampled_from([17, 17, 18]))}


def receiver(case):
    """First of {drawn receiver, target 0, target 1} that is within 45 NM and < 44 deg of longitude of both targets."""
    cands = [destination(case["lat0"], case["lon0"], case["rdist"], case["rbrg"]),
             (case["lat0"], case["lon0"]), (case["lat1"], case["lon1"])]
    if case.get("int_receiver"):  # a receiver configured in whole degrees: Python ints, or numpy integers of any width that holds the value
        import numpy as np
        rl_, ro_ = int(round(case["lat0"])), (int(round(case["lon0"])) if round(case["lon0"]) != 180 else -180)
        kinds = [int, int, np.int16, np.int32, np.int64] + ([np.int8, np.int8] if abs(ro_) <= 127 else [])
        conv = kinds[case["ctx_bits1"] % len(kinds)]
        cands.insert(0, (conv(rl_), conv(ro_)))
    for rl, ro in cands:
        if all(cpr.haversine_m(la, lo, rl, ro) <= 44.9 * cpr.NM and cpr.lon_diff(lo, ro) <= 44.0
               for (la, lo) in ((case["lat0"], case["lon0"]), (case["lat1"], case["lon1"]))):
            return rl, ro
    return None


def chk_surface(case, note):
    e0 = cpr.encode(case["lat0"], case["lon0"], 0, True)
    e1 = cpr.encode(case["lat1"], case["lon1"], 1, True)
    b0, b1 = case["ctx_bits0"], case["ctx_bits1"]
    me0 = cpr.me_surface(case["tc0"], 0, e0["yz"], e0["xz"], b0 & 127, (b0 >> 7) & 1, (b0 >> 8) & 127, 0)
    me1 = cpr.me_surface(case["tc1"], 1, e1["yz"], e1["xz"], b1 & 127, (b1 >> 7) & 1, (b1 >> 8) & 127, 0)
    m0 = frames.tohex(frames.df17(case["ctx_icao"], me0, ca=b0 & 7, df=case["df"]), 112, case.get("hc", "U"))
    m1 = frames.tohex(frames.df17(case["ctx_icao"], me1, ca=b0 & 7, df=case["df"]), 112, case.get("hc", "U"))
    if b0 & 8:
        variants.prelude(pms, m0)   # helpers on the same string, and other message types of the same aircraft, decoded first
    dtm = case.get("as_datetime", 0)
    T0, T1 = cg.as_time(case["t0"], dtm), cg.as_time(case["t1"], dtm)
    t0, t1 = cg.time_key(case["t0"], dtm), cg.time_key(case["t1"], dtm)
    if case["noref"]:
        for args in ((m0, m1, t0, t1), (m0, m1, t0, t1, None, 3.0), (m0, m1, t0, t1, 3.0, None)):
            r = call(pms.adsb.position, *args)
            if not (r[0] == "raise" and r[1] == "RuntimeError"):
                return "position%r without a complete reference -> %r, expected RuntimeError" % (args, r)
        note.cls("no-reference")
        note.nt(True)
        return None
    rc = receiver(case)
    if rc is None:  # only within a fraction of a mile of a pole, where 0.2 NM spans > 44 deg of longitude
        note.cls("no-admissible-receiver")
        return None
    rl, ro = rc
    cands = [e0] if t0 > t1 else ([e1] if t1 > t0 else [e0, e1])
    for name, fn in (("position", pms.adsb.position), ("surface_position", pms.adsb.surface_position)):
        r = call(fn, m0, m1, T0, T1, rl, ro)
        tag = "%s(%s, %s, %r, %r, %r, %r)" % (name, m0, m1, t0, t1, rl, ro)
        if r[0] != "ok":
            return "%s raised %r" % (tag, r[1:])
        if r[1] is None:
            n0, n1 = cpr.NL_set(e0["rlat"]), cpr.NL_set(e1["rlat"])
            if len(n0) == 1 and n0 == n1:
                return "%s returned None although both encoded latitudes (%r, %r) have NL=%s" % (tag, e0["rlat"], e1["rlat"], sorted(n0))
            note.cls("none-nl-differs")
            continue
        if cpr.near_transition(e0["rlat"], 1e-9) or cpr.near_transition(e1["rlat"], 1e-9):
            note.cls("ambiguous-transition")
            continue
        try:
            lat, lon = r[1]
            ok = any(abs(lat - e["rlat"]) <= e["dlat_step"] + 1e-9 and cpr.lon_diff(lon, e["rlon"]) <= e["dlon_step"] + 1e-9 for e in cands)
        except Exception:
            ok = False
        if not ok:
            return "%s = %r, encoded position of the newer frame %s" % (tag, r[1], [(e["rlat"], e["rlon"]) for e in cands])
    eq = (rl > 0) != (e1["rlat"] > 0) or (rl > 0) != (e0["rlat"] > 0)
    mer = (ro > 0) != (cg.wrap_lon(e1["rlon"]) > 0)
    tr = cpr.near_transition(e0["rlat"], 0.02) or cpr.near_transition(e1["rlat"], 0.02)
    if eq:
        note.cls("receiver-across-equator")
    if mer:
        note.cls("receiver-across-0-or-180")
    if tr:
        note.cls("near-transition")
    note.cls("t0>t1" if t0 > t1 else ("t0<t1" if t0 < t1 else "t0==t1"))
    note.nt(eq or mer or tr)
    if b1 & 7 == 0:
        # receivers (all but) exactly half-way between two of the four longitude candidates: the choice may fall either way, but the call
        # answers - with one of the candidates, never with an exception of another kind than RuntimeError
        good = call(pms.adsb.position, m0, m1, T0, T1, rl, ro)
        if good[0] == "ok" and good[1] is not None:
            glat, glon = good[1]
            for k in range(4):
                centre = (glon % 90.0) + 90.0 * k - 45.0
                for j in (-3, -2, -1, 0, 1, 2, 3):
                    lr = centre
                    for _ in range(abs(j)):
                        lr = math.nextafter(lr, math.inf if j > 0 else -math.inf)
                    lr = cg.wrap_lon(lr)
                    r = call(pms.adsb.position, m0, m1, T0, T1, rl, lr)
                    if r[0] == "raise" and r[1] != "RuntimeError":
                        return "position(%s, %s, %r, %r, %r, %r) raised %r (receiver half-way between two longitude candidates)" % (m0, m1, t0, t1, rl, lr, r[1:])
                    if r[0] == "ok" and r[1] is not None:
                        if abs(r[1][0] - glat) > 1e-9 or min(cpr.lon_diff(r[1][1], glon + 90.0 * q) for q in range(4)) > 1e-9:
                            return "position(%s, %s, %r, %r, %r, %r) = %r, not one of the four candidates of (%r, %r)" % (m0, m1, t0, t1, rl, lr, r[1], glat, glon)
        note.cls("tie-receivers")
    if not case.get("_swapped") and b0 & 1:
        # the identical two strings once more with the time stamps exchanged
        return chk_surface(dict(case, t0=case["t1"], t1=case["t0"], _swapped=True), type(note)())
    return None


def _encoded_lat_is_north_pole(leg, case):
    """D18: a surface frame whose encoded latitude is exactly +90 (YZ = 0 aliases with latitude 0)."""
    if leg != "surface_pair" or case.get("noref"):
        return False
    return (cpr.encode(case["lat0"], case["lon0"], 0, True)["rlat"] >= 90.0 - 1e-12 or
            cpr.encode(case["lat1"], case["lon1"], 1, True)["rlat"] >= 90.0 - 1e-12)


KNOWN_PREDICATES = {"encoded_latitude_is_plus_90": _encoded_lat_is_north_pole}



# ---------------------------------------------------------------- volume: one process, very many distinct pairs, revisits, concurrent callers at the end
def vol_step(a, b, k):
    lat = (a >> 11) / 9007199254740992.0 * 170.0 - 85.0
    lon = (b >> 11) / 9007199254740992.0 * 360.0 - 180.0
    e0, e1 = cpr.encode(lat, lon, 0, True), cpr.encode(lat, lon, 1, True)
    if cpr.near_transition(e0["rlat"], 1e-9) or cpr.near_transition(e1["rlat"], 1e-9):
        return None
    tc = 5 + (a >> 2) % 4
    head = "%02X%06X" % ((0x88 if a & 1 else 0x90) | ((a >> 6) & 7), b & 0xFFFFFF)
    mv = (b >> 24) & 0x7F
    f0 = head + "%014X%06X" % (cpr.me_surface(tc, 0, e0["yz"], e0["xz"], mv, 1, (b >> 31) & 127, 0), (a >> 20) & 0xFFFFFF)
    f1 = head + "%014X%06X" % (cpr.me_surface(tc, 1, e1["yz"], e1["xz"], mv, 1, (b >> 31) & 127, 0), (a >> 21) & 0xFFFFFF)
    if a & 2:
        f0, f1 = f0.lower(), f1.lower()
    newer = e0 if a & 32 else e1
    r = call(pms.adsb.position, f0, f1, 2 if a & 32 else 1, 1 if a & 32 else 2, lat, lon)
    if r[0] != "ok":
        return "position(%s, %s, ..., %r, %r) raised %r" % (f0, f1, lat, lon, r[1:])
    if r[1] is None:
        n0, n1 = cpr.NL_set(e0["rlat"]), cpr.NL_set(e1["rlat"])
        return "position(%s, %s, ...) returned None although both latitudes have NL=%s" % (f0, f1, sorted(n0)) if len(n0) == 1 and n0 == n1 else None
    try:
        la, lo = r[1]
        ok = abs(la - newer["rlat"]) <= newer["dlat_step"] + 1e-9 and cpr.lon_diff(lo, newer["rlon"]) <= newer["dlon_step"] + 1e-9
    except Exception:
        ok = False
    return None if ok else "position(%s, %s, %s, %r, %r) = %r, encoded position of the newer frame (%r, %r)" % (
        f0, f1, "2, 1" if a & 32 else "1, 2", lat, lon, r[1], newer["rlat"], newer["rlon"])



# ---------------------------------------------------------------- first calls of a freshly imported package, four threads at once
def first_jobs(rng):
    jobs = []
    for _ in range(24):
        lat, lon = rng.uniform(-80, 80), rng.uniform(-180, 180)
        e0, e1 = cpr.encode(lat, lon, 0, True), cpr.encode(lat, lon, 1, True)
        if cpr.near_transition(e0["rlat"], 1e-6) or cpr.near_transition(e1["rlat"], 1e-6) or cpr.NL(e0["rlat"]) != cpr.NL(e1["rlat"]):
            continue
        f0 = frames.tohex(frames.df17(gen.addr24(rng), cpr.me_surface(6, 0, e0["yz"], e0["xz"], rng.getrandbits(7), 1, rng.getrandbits(7), 0)), 112, "U")
        f1 = frames.tohex(frames.df17(gen.addr24(rng), cpr.me_surface(6, 1, e1["yz"], e1["xz"], rng.getrandbits(7), 1, rng.getrandbits(7), 0)), 112, "U")

        def judge(got, e1=e1):
            try:
                la, lo = got[1]
                ok = got[0] == "ok" and abs(la - e1["rlat"]) <= e1["dlat_step"] + 1e-9 and cpr.lon_diff(lo, e1["rlon"]) <= e1["dlon_step"] + 1e-9
            except Exception:
                ok = False
            return None if ok else "encoded position (%r, %r)" % (e1["rlat"], e1["rlon"])
        jobs.append(("adsb.position", (f0, f1, 1, 2, lat, lon), judge))
    return jobs


LEGS = [
    variants.first_use_leg(first_jobs),
    volume.leg(vol_step, 140000, 300000, "140 000 (thorough: 300 000 per process) distinct surface pairs in one process; identical pairs decoded again after 4100 ... 263 000 others; four concurrent callers at the end", finale=500),Leg("surface_pair", chk_surface, strategy=s_surface, quick=32000, thorough=1200000,
            doc="even+odd surface pair, receiver anywhere within 45 NM, both time orders, position() and surface_position()")]
