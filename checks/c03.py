"""C03 - Airborne CPR global decode recovers the encoded position."""
from hypothesis import strategies as st

import pyModeS as pms
from ref import cpr, frames
from vlib import gen
from vlib import variants
from vlib import volume
from vlib.core import Leg, call
from checks import cprcommon as cg

PROPERTY = "C03"
RULE = ("two positions <= 1 NM apart (30% identical; latitude dense at the 58 NL transitions +-{0,1e-9..1e-2}, at 0, +-87, +-90; "
        "longitude dense at 0/+-90/+-180) encoded by the DO-260B reference encoder as one even and one odd airborne frame "
        "(TC from one class 9-18 or 20-22, DF17/18, random altitude/surveillance bits), all time orders (int, float and datetime time stamps, incl. sub-second differences), both argument orders, "
        "position() and airborne_position(); oracle: result within one quantisation step of the position encoded in the later "
        "frame (lon mod 360), None only if the reference NL of the two encoded latitudes differ, equal parities -> RuntimeError. "
        "non-trivial = latitude within 0.02 deg of a transition, |lat|>86.5, |lon|>179.9, displaced pair, or odd-first argument order; "
        "distinct by (positions, parity, times)"
        ' Also: int / float / datetime time stamps incl. naive datetimes inside the spring-forward hour of a pinned DST zone, hex letter case, the same two strings re-decoded with exchanged time stamps, 924 real even/odd pairs re-encoded by the reference encoder (leg corpus), 40 000 / 300 000 distinct pairs in a row in one process with identical pairs coming back later and four concurrent callers at the end (leg volume), the first position decodes of a freshly imported package made by four threads at once (leg first_use), unsigned numpy time stamps, other message types / look-alike frames / an equal-parity sibling of the same aircraft decoded first, positions whose CPR fields are round binary numbers with corner altitude fields.')
ASSUMPTIONS = ["pairs with an encoded latitude within 1e-9 deg of an NL transition are counted, not judged", "both frames carry a type code of the same class (mixed baro/GNSS pairs are rejected by position() by design)",
               "reference encoder ref/cpr.py follows DO-260B A.1.7.3"]


@st.composite
def s_pair(draw):
    lat1, lon1, lat2, lon2 = draw(cg.near_pairs(1.0))
    cls = draw(st.sampled_from(["baro", "baro", "gnss"]))
    tcs = st.integers(9, 18) if cls == "baro" else st.integers(20, 22)
    t1, t2 = draw(cg.TIMES)
    par1 = draw(st.integers(0, 1))
    corner = None
    if draw(gen.uint(0, 9)) == 0:
        # both frames at one position whose CPR fields are round binary numbers for the first frame, altitude fields on a corner
        lat1, lon1 = cg.round_position(draw, par1, False)
        lat2, lon2 = lat1, lon1
        corner = draw(st.sampled_from([0, 0, 0xFFF]))
    return {
        "lat1": lat1, "lon1": lon1, "lat2": lat2, "lon2": lon2,
        "par1": par1, "same_parity": draw(gen.uint(0, 19)) == 0,
        "tc1": draw(tcs), "tc2": draw(tcs), "t1": t1, "t2": t2, "as_datetime": draw(st.sampled_from([0, 0, 0, 1, 2, 3, 4, 4])), "hc": draw(gen.hexcase),
        "ctx_alt1": draw(gen.ubits(12)) if corner is None else corner, "ctx_alt2": draw(gen.ubits(12)) if corner is None else corner,
        "ctx_misc": draw(gen.ubits(8)), "ctx_icao": draw(gen.addresses), "df": draw(st.sampled_from([17, 17, 18])),
    }


def build(case):
    i1 = case["par1"]
    i2 = i1 if case["same_parity"] else 1 - i1
    e1 = cpr.encode(case["lat1"], case["lon1"], i1)
    e2 = cpr.encode(case["lat2"], case["lon2"], i2)
    m = case["ctx_misc"]
    me1 = cpr.me_airborne(case["tc1"], i1, e1["yz"], e1["xz"], case["ctx_alt1"], m & 3, (m >> 2) & 1, (m >> 3) & 1)
    me2 = cpr.me_airborne(case["tc2"], i2, e2["yz"], e2["xz"], case["ctx_alt2"], (m >> 4) & 3, (m >> 6) & 1, (m >> 7) & 1)
    f1 = frames.tohex(frames.df17(case["ctx_icao"], me1, ca=m & 7, df=case["df"]), 112, case.get("hc", "U"))
    f2 = frames.tohex(frames.df17(case["ctx_icao"], me2, ca=m & 7, df=case["df"]), 112, case.get("hc", "U"))
    return (f1, e1, i1), (f2, e2, i2)


def within(res, enc):
    lat, lon = res
    return (abs(lat - enc["rlat"]) <= enc["dlat_step"] + 1e-9 and
            cpr.lon_diff(lon, enc["rlon"]) <= enc["dlon_step"] + 1e-9)


def chk_pair(case, note):
    (f1, e1, i1), (f2, e2, i2) = build(case)
    t1, t2 = cg.time_key(case["t1"], case.get("as_datetime", 0)), cg.time_key(case["t2"], case.get("as_datetime", 0))
    lat_nt = any(cpr.near_transition(x, 0.02) or abs(x) > 86.5 for x in (e1["rlat"], e2["rlat"]))
    displaced = (case["lat1"], case["lon1"]) != (case["lat2"], case["lon2"])
    dtm = case.get("as_datetime", False)
    T1, T2 = cg.as_time(case["t1"], dtm), cg.as_time(case["t2"], dtm)
    if (case["ctx_bits"] if "ctx_bits" in case else hash(f1)) & 2:
        variants.prelude(pms, f1)   # helpers on the same string, and other message types of the same aircraft, decoded first
    for order in ("12", "21"):
        a, b = ((f1, T1, i1), (f2, T2, i2)) if order == "12" else ((f2, T2, i2), (f1, T1, i1))
        for fname, fn in (("position", pms.adsb.position), ("airborne_position", pms.adsb.airborne_position)):
            r = call(fn, a[0], b[0], a[1], b[1])
            tag = "%s(%s, %s, %r, %r)" % (fname, a[0], b[0], a[1], b[1])
            if i1 == i2:
                if not (r[0] == "raise" and r[1] == "RuntimeError"):
                    return "%s with two frames of parity %d -> %r, expected RuntimeError" % (tag, i1, r)
                continue
            if r[0] != "ok":
                return "%s raised %r" % (tag, r[1:])
            # which frame is newer
            if t1 > t2:
                cands = [e1]
            elif t2 > t1:
                cands = [e2]
            else:
                cands = [e1, e2]
            if r[1] is None:
                nls = [cpr.NL_set(e1["rlat"]), cpr.NL_set(e2["rlat"])]
                if len(nls[0]) == 1 and len(nls[1]) == 1 and nls[0] == nls[1]:
                    return "%s returned None although both encoded latitudes (%r, %r) have NL=%s" % (
                        tag, e1["rlat"], e2["rlat"], sorted(nls[0]))
                note.cls("none-nl-differs")
                continue
            if any(cpr.near_transition(e["rlat"], 1e-9) for e in (e1, e2)):
                note.cls("ambiguous-transition")
                continue
            try:
                ok = len(r[1]) == 2 and any(within(r[1], e) for e in cands)
            except Exception:
                ok = False
            if not ok:
                return "%s = %r, encoded position of the newer frame = %s" % (
                    tag, r[1], [(e["rlat"], e["rlon"]) for e in cands])
    if i1 == i2:
        note.cls("same-parity")
    if dtm:
        note.cls("datetime-timestamps")
    note.cls("tc-baro" if case["tc1"] < 19 else "tc-gnss", "t1>t2" if t1 > t2 else ("t1<t2" if t1 < t2 else "t1==t2"))
    if lat_nt:
        note.cls("near-transition-or-pole")
    if displaced:
        note.cls("displaced")
    if abs(case["lon1"]) > 179.9:
        note.cls("antimeridian")
    note.nt(True, key=[case["lat1"], case["lon1"], case["lat2"], case["lon2"], case["par1"], t1 > t2, t1 == t2, case["same_parity"]])
    if not case.get("_swapped") and case["ctx_misc"] & 1:
        # the identical two strings once more with the time stamps exchanged: the other frame is now the newer one
        return chk_pair(dict(case, t1=case["t2"], t2=case["t1"], _swapped=True), type(note)())
    return None


def _real_pairs():
    from vlib import corpus
    last = {}
    out = []
    for t, m, icao, tc in corpus.adsb_timed():
        if not 9 <= tc <= 18:
            continue
        v = int(m, 16)
        par = (v >> (112 - 32 - 22)) & 1
        prev = last.get((icao, 1 - par))
        if prev is not None and 0 <= t - prev[0] <= 8:
            out.append((prev[1], m, prev[0], t) if par == 1 else (m, prev[1], t, prev[0]))
        last[(icao, par)] = (t, m)
    return out


def enum_corpus(ctx):
    n = len(_real_pairs())
    for k, start in enumerate(range(0, n, 50)):
        if ctx.mine(k):
            yield {"start": start}


def chk_corpus(case, note):
    """real even/odd pairs at most 8 s apart: decode with the library, re-encode with the reference encoder -> the transmitted YZ/XZ"""
    n = 0
    for m0, m1, t0, t1 in _real_pairs()[case["start"]:case["start"] + 50]:
        r = call(pms.adsb.position, m0, m1, t0, t1)
        if r[0] != "ok":
            return "position(%s, %s, %r, %r) raised %r on a real pair" % (m0, m1, t0, t1, r[1:])
        if r[1] is None:
            continue
        newer, par = (m0, 0) if t0 > t1 else (m1, 1)
        v = int(newer, 16) >> 24
        yz, xz = (v >> 17) & 0x1FFFF, v & 0x1FFFF
        e = cpr.encode(r[1][0], r[1][1], par)
        if abs(e["yz"] - yz) % 131072 not in (0, 1, 131071) or abs(e["xz"] - xz) % 131072 not in (0, 1, 131071):
            return "real pair %s / %s decodes to %r, which the reference encoder maps to YZ=%d XZ=%d, transmitted YZ=%d XZ=%d" % (m0, m1, r[1], e["yz"], e["xz"], yz, xz)
        n += 1
    note.evals = max(1, n)
    note.cls("real-pairs")
    note.nt(n > 0)
    return None



# ---------------------------------------------------------------- volume: one process, very many distinct pairs, revisits, concurrent callers at the end
def vol_step(a, b, k):
    lat = (a >> 11) / 9007199254740992.0 * 170.0 - 85.0
    lon = (b >> 11) / 9007199254740992.0 * 360.0 - 180.0
    e0, e1 = cpr.encode(lat, lon, 0), cpr.encode(lat, lon, 1)
    if cpr.near_transition(e0["rlat"], 1e-9) or cpr.near_transition(e1["rlat"], 1e-9):
        return None
    tc = 9 + (a >> 2) % 10
    head = "%02X%06X" % ((0x88 if a & 1 else 0x90) | ((a >> 6) & 7), b & 0xFFFFFF)
    alt = (b >> 24) & 0xFFF
    f0 = head + "%014X%06X" % (cpr.me_airborne(tc, 0, e0["yz"], e0["xz"], alt, 0, 0, 0), (a >> 20) & 0xFFFFFF)
    f1 = head + "%014X%06X" % (cpr.me_airborne(tc, 1, e1["yz"], e1["xz"], alt, 0, 0, 0), (a >> 21) & 0xFFFFFF)
    if a & 2:
        f0, f1 = f0.lower(), f1.lower()
    newer = e0 if a & 32 else e1
    r = call(pms.adsb.position, f0, f1, 2 if a & 32 else 1, 1 if a & 32 else 2)
    if r[0] != "ok":
        return "position(%s, %s, ...) raised %r" % (f0, f1, r[1:])
    if r[1] is None:
        n0, n1 = cpr.NL_set(e0["rlat"]), cpr.NL_set(e1["rlat"])
        return "position(%s, %s, ...) returned None although both latitudes have NL=%s" % (f0, f1, sorted(n0)) if len(n0) == 1 and n0 == n1 else None
    try:
        ok = within(r[1], newer)
    except Exception:
        ok = False
    return None if ok else "position(%s, %s, %s) = %r, encoded position of the newer frame (%r, %r)" % (f0, f1, "2, 1" if a & 32 else "1, 2", r[1], newer["rlat"], newer["rlon"])



# ---------------------------------------------------------------- first calls of a freshly imported package, four threads at once
def first_jobs(rng):
    jobs = []
    for _ in range(24):
        lat, lon = rng.uniform(-80, 80), rng.uniform(-180, 180)
        e0, e1 = cpr.encode(lat, lon, 0), cpr.encode(lat, lon, 1)
        if cpr.near_transition(e0["rlat"], 1e-6) or cpr.near_transition(e1["rlat"], 1e-6) or cpr.NL(e0["rlat"]) != cpr.NL(e1["rlat"]):
            continue
        f0 = frames.tohex(frames.df17(gen.addr24(rng), cpr.me_airborne(11, 0, e0["yz"], e0["xz"], rng.getrandbits(12), 0, 0, 0)), 112, "U")
        f1 = frames.tohex(frames.df17(gen.addr24(rng), cpr.me_airborne(11, 1, e1["yz"], e1["xz"], rng.getrandbits(12), 0, 0, 0)), 112, "U")

        def judge(got, e1=e1, f0=f0, f1=f1):
            try:
                return None if got[0] == "ok" and got[1] is not None and within(got[1], e1) else "encoded position (%r, %r)" % (e1["rlat"], e1["rlon"])
            except Exception:
                return "encoded position (%r, %r)" % (e1["rlat"], e1["rlon"])
        jobs.append(("adsb.position", (f0, f1, 1, 2), judge))
    return jobs


LEGS = [
    variants.first_use_leg(first_jobs),
    volume.leg(vol_step, 140000, 300000, "140 000 (thorough: 300 000 per process) distinct airborne pairs in one process; identical pairs decoded again after 4100 ... 263 000 others; four concurrent callers at the end", finale=500),
    Leg("corpus", chk_corpus, enum=enum_corpus, exhaustive=True, doc="real even/odd pairs from the repository's sample data: decoded position re-encodes (reference encoder) to the transmitted CPR fields"),
    Leg("global_pair", chk_pair, strategy=s_pair, quick=32000, thorough=1500000,
        doc="even/odd airborne pair x time order x argument order x {position, airborne_position}"),
]
