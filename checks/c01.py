"""C01 - Mode S CRC-24: exact remainder, parity closure, error detection."""
import itertools

import numpy as np
from hypothesis import strategies as st

from vlib import variants
variants.fake_rtlsdr()   # before the reader module is imported (the demodulator's frame admission is one of the anchors)

import pyModeS as pms  # noqa: E402
from pyModeS import py_common  # noqa: E402
from ref import crc24
from ref import frames as frames_ref
from ref.frames import tohex
from vlib import gen
from vlib import volume
from vlib.core import Leg, call

PROPERTY = "C01"
RULE = ("frames of 56/112 bits (uniform, all-0/all-1, sparse, dense, the suite's frames; upper/lower/mixed hex) "
        "judged three-way against a bit-serial division by 0x1FFF409 and crc_legacy; parity closure; implementation "
        "linearity; direct error injection (all weight<=3 patterns, all bursts <=12 at every offset, sampled weight 4-5 "
        "and bursts 13-24) on valid frames; syndrome closure: no 1..5 single-bit syndromes of the implementation XOR to 0. "
        "non-trivial = frame not all-zero (and, for error cases, the error touches the data field); distinct by case hash"
        ' Also: 2000 real DF17 frames (leg corpus), replacement parity fields copied from the data part, keyword and positional encode flag, four concurrent callers (leg threads), the admission test of the demodulator _check_msg as a history on one reader incl. RtlReader(debug=True) (leg admission), 140 000 / 1.3 million distinct frames in a row in one process (leg volume), the first calls of a freshly imported package made by four threads at once (leg first_use), flags given as 1 / numpy.True_ / numpy.int64(1), frames whose parity is off by the address of a squitter shown before and replies of the other formats in the admission history, sample buffers with corrupted and with smeared squitters through _process_buffer (leg demodulated).'
        ' Also: data parities with a value of its own (FFFFFF, 000000, ...) by a GF(2) solve.')
ASSUMPTIONS = ["hex strings of exactly 14 or 28 digits",
               "completeness of the weight<=5 detection claim over all frames rests on implementation linearity, which is sampled (leg linearity)"]


def _ok(r):
    return r[0] == "ok"


# ---------------------------------------------------------------- three-way
SPECIAL_REMAINDERS = [0xFFFFFF, 0xFFFFFE, 0x800000, 0x7FFFFF, 0x000001, 0x000000, 0xFFF409, 0x000080, 0xFFFF80]


@st.composite
def s_frame(draw):
    n, v = draw(gen.frame_ints())
    if draw(gen.uint(0, 5)) == 0:
        # a remainder / parity with a value of its own (all ones, all zeros, one bit, the generator's low bits, 2^24 - 2): the last 24 data bits are
        # solved for so that the 24 parity bits of the data part come out as that value (a uniformly random frame meets each with probability 2^-24)
        t = draw(st.sampled_from(SPECIAL_REMAINDERS))
        tail = draw(st.sampled_from([0, 0, 0xFFFFFF, 1, t]))
        data = v >> 24
        x = frames_ref.affine_solve(lambda x: crc24.parity((data & ~0xFFFFFF) | x, n - 24) ^ t, 24)
        v = ((((data & ~0xFFFFFF) | x) << 24) | tail) if x is not None else v
        return {"msg": tohex(v, n, draw(gen.hexcase)), "enc": draw(st.booleans()), "special": "%06X" % t}
    return {"msg": tohex(v, n, draw(gen.hexcase)), "enc": draw(st.booleans())}


def chk_three_way(case, note):
    m, enc = case["msg"], case["enc"]
    n = len(m) * 4
    v = int(m, 16)
    exp = crc24.parity(v >> 24, n - 24) if enc else crc24.remainder(v, n)
    got = call(pms.crc, m, enc) if enc else call(pms.crc, m)
    if call(pms.crc, m, encode=enc) != got:
        return "crc(%s, encode=%s) as a keyword -> %r, positional -> %r" % (m, enc, call(pms.crc, m, encode=enc), got)
    # the flag as an int, a numpy bool (element of a boolean mask) or a numpy integer means the same
    for flag in ((1, np.True_, np.int64(1)) if enc else (0, np.False_)):
        if call(pms.crc, m, flag) != got:
            return "crc(%s, %r) -> %r, with the flag as %r -> %r" % (m, flag, call(pms.crc, m, flag), enc, got)
    leg = call(py_common.crc_legacy, m, enc)
    note.cls("len%d" % n, "enc" if enc else "dec", "lower" if m != m.upper() else "upper")
    if case.get("special"):
        note.cls("data-parity-" + case["special"])
    note.nt(v != 0)
    if got != ("ok", exp):
        return "crc(%s, encode=%s) = %r, reference remainder = %06X" % (m, enc, got, exp)
    if leg != ("ok", exp):
        return "crc_legacy(%s, encode=%s) = %r, reference remainder = %06X" % (m, enc, leg, exp)
    return None


# ---------------------------------------------------------------- parity closure
@st.composite
def s_closure(draw):
    n, v = draw(gen.frame_ints())
    msg = tohex(v, n, draw(gen.hexcase))
    tail = draw(gen.bits(24))
    if draw(gen.uint(0, 3)) == 0:  # a parity field whose hex text also occurs in the data part (string-level handling of the field)
        k = draw(gen.uint(0, len(msg) - 12))
        tail = int(msg[k:k + 6], 16)
    return {"msg": msg, "tail": tail}


def chk_closure(case, note):
    m, tail = case["msg"], case["tail"]
    n = len(m) * 4
    p = call(pms.crc, m, True)
    if not _ok(p) or not isinstance(p[1], (int, np.integer)):
        return "crc(%s, encode=True) -> %r" % (m, p)
    p = int(p[1])
    m2 = m[:-6] + ("%06X" % tail if m == m.upper() else "%06x" % tail)
    p2 = call(pms.crc, m2, True)
    note.nt(int(m, 16) >> 24 != 0)
    if p2 != ("ok", p):
        return "parity depends on the parity field: crc(%s,True)=%06X but crc(%s,True)=%r" % (m, p, m2, p2)
    if not 0 <= p < 1 << 24:
        return "parity %r out of 24 bits" % p
    m3 = m[:-6] + "%06X" % p
    z = call(pms.crc, m3)
    if z != ("ok", 0):
        return "frame with its own parity does not check: crc(%s)=%r" % (m3, z)
    z2 = call(py_common.crc_legacy, m3)
    if z2 != ("ok", 0):
        return "crc_legacy(%s)=%r for a frame carrying crc(encode=True)" % (m3, z2)
    return None


# ---------------------------------------------------------------- linearity
@st.composite
def s_lin(draw):
    n = draw(st.sampled_from([56, 112]))
    return {"a": tohex(draw(gen.bits(n)), n), "b": tohex(draw(gen.bits(n)), n)}


def chk_lin(case, note):
    a, b = case["a"], case["b"]
    n = len(a) * 4
    x = tohex(int(a, 16) ^ int(b, 16), n)
    ca, cb, cx = call(pms.crc, a), call(pms.crc, b), call(pms.crc, x)
    note.nt(int(a, 16) != 0 and int(b, 16) != 0 and a != b)
    if not (_ok(ca) and _ok(cb) and _ok(cx)):
        return "crc raised: %r %r %r" % (ca, cb, cx)
    if ca[1] ^ cb[1] != cx[1]:
        return "crc(a^b) != crc(a)^crc(b) for a=%s b=%s" % (a, b)
    return None


# ---------------------------------------------------------------- direct error injection
def _valid_frame(rng, n):
    data = rng.getrandbits(n - 24)
    if rng.random() < 0.3:  # DF17 look-alike
        data = (data & ~(0x1F << (n - 29))) | (17 << (n - 29)) if n == 112 else data
    return crc24.downlink_frame(data, n - 24, 0)


def enum_direct(ctx):
    """case = one valid frame x one lowest flipped bit i x a block kind; the block enumerates every
    pattern of that kind anchored at i."""
    idx = 0
    for n in (112, 56):
        nfr = ctx.n if n == 112 else ctx.n * 2
        for k in range(nfr):
            rng = ctx.rng("direct", n, k)
            f = _valid_frame(rng, n)
            for i in range(n):
                for kind in ("w3", "burst12", "rand"):
                    idx += 1
                    if ctx.mine(idx):
                        yield {"msg": tohex(f, n), "i": i, "kind": kind, "ctx_seed": rng.getrandbits(32)}


def chk_direct(case, note):
    m, i, kind = case["msg"], case["i"], case["kind"]
    n = len(m) * 4
    f = int(m, 16)
    if pms.crc(m) != 0:
        return "harness frame %s not valid under crc()" % m
    cnt = 0

    def bad(e):
        return pms.crc(tohex(f ^ e, n)) == 0

    if kind == "w3":
        # every pattern of weight 1..3 whose lowest set bit is i
        e0 = 1 << i
        if bad(e0):
            return "1-bit error at bit %d of %s checks as valid" % (i, m)
        cnt += 1
        for j in range(i + 1, n):
            e1 = e0 | 1 << j
            cnt += 1
            if bad(e1):
                return "2-bit error %X on %s checks as valid" % (e1, m)
            for k in range(j + 1, n):
                cnt += 1
                if bad(e1 | 1 << k):
                    return "3-bit error %X on %s checks as valid" % (e1 | 1 << k, m)
    elif kind == "burst12":
        # every burst of length 2..12 starting at bit i (first and last bit of the burst flipped)
        for L in range(2, 13):
            if i + L > n:
                break
            for mid in range(1 << (L - 2)):
                e = (1 | mid << 1 | 1 << (L - 1)) << i
                cnt += 1
                if bad(e):
                    return "burst of length %d (%X) on %s checks as valid" % (L, e, m)
    else:
        import random

        rng = random.Random(case["ctx_seed"])
        for _ in range(40):
            L = rng.randint(13, 24)
            if i + L <= n:
                e = (1 | rng.getrandbits(L - 2) << 1 | 1 << (L - 1)) << i
                cnt += 1
                if bad(e):
                    return "burst of length %d (%X) on %s checks as valid" % (L, e, m)
            w = rng.choice([4, 5])
            pos = [i] + rng.sample([p for p in range(n) if p != i], w - 1)
            e = sum(1 << p for p in pos)
            cnt += 1
            if bad(e):
                return "%d-bit error %X on %s checks as valid" % (w, e, m)
    note.evals = cnt
    note.cls(kind, "len%d" % n)
    note.nt(f != 0 and i >= 0, key=[m, i, kind])
    return None


# ---------------------------------------------------------------- syndrome closure (complete given linearity)
def enum_closure(ctx):
    idx = 0
    for n in (112, 56):
        for part in ("ref", "w1", "w2", "w3", "w4", "w5"):
            idx += 1
            if ctx.mine(idx):
                yield {"n": n, "part": part}


def chk_synd(case, note):
    n, part = case["n"], case["part"]
    syn = [pms.crc(tohex(1 << i, n)) for i in range(n)]
    s = np.array(syn, dtype=np.int64)
    note.cls(part)
    note.nt(True)
    if part == "ref":
        note.evals = n
        for i in range(n):
            if syn[i] != crc24.remainder(1 << i, n):
                return "syndrome of bit %d (len %d) is %06X, reference %06X" % (i, n, syn[i], crc24.remainder(1 << i, n))
        return None
    iu = np.triu_indices(n, 1)
    pairs = s[iu[0]] ^ s[iu[1]]
    if part == "w1":
        note.evals = n
        if (s == 0).any():
            return "single-bit error at bit %d has zero syndrome" % int(np.argmax(s == 0))
    elif part == "w2":
        note.evals = len(pairs)
        if (pairs == 0).any():
            k = int(np.argmax(pairs == 0))
            return "2-bit error at bits %d,%d has zero syndrome" % (iu[0][k], iu[1][k])
    elif part == "w3":
        note.evals = len(pairs)
        hit = np.isin(pairs, s)
        if hit.any():
            k = int(np.argmax(hit))
            return "a 3-bit error containing bits %d,%d has zero syndrome" % (iu[0][k], iu[1][k])
    elif part == "w4":
        note.evals = len(pairs)
        if len(np.unique(pairs)) != len(pairs):
            return "two distinct bit pairs share a syndrome: a 4-bit error has zero syndrome (len %d)" % n
    elif part == "w5":
        trip = []
        for a in range(n):
            sub = pairs[(iu[0] > a)]
            trip.append(sub ^ s[a])
        trip = np.concatenate(trip)
        note.evals = len(trip)
        hit = np.isin(trip, pairs)
        if hit.any():
            return "a 5-bit error has zero syndrome (len %d)" % n
    return None


# ---------------------------------------------------------------- real frames (validates the reference itself)
def enum_corpus(ctx):
    from vlib import corpus
    for start, _ in corpus.blocks(corpus.adsb(), ctx):
        yield {"start": start}


def chk_corpus(case, note):
    from vlib import corpus
    rows = corpus.adsb()[case["start"]:case["start"] + 100]
    for m, _icao, _tc in rows:
        v = int(m, 16)
        if crc24.remainder(v, 112) != 0:
            return "reference CRC does not accept the real DF17 frame %s: the reference polynomial/bit order is wrong" % m
        for nm, fn in (("crc", pms.crc), ("crc_legacy", py_common.crc_legacy)):
            r = call(fn, m)
            if r != ("ok", 0):
                return "%s(%s) -> %r for a real DF17 frame (expected 0)" % (nm, m, r)
        p = call(pms.crc, m, True)
        if p != ("ok", v & 0xFFFFFF):
            return "crc(%s, encode=True) -> %r, the frame carries parity %06X" % (m, p, v & 0xFFFFFF)
    note.evals = 3 * len(rows)
    note.cls("real-df17")
    note.nt(True)
    return None


def enum_threads(ctx):
    for k in range(4 if ctx.tier == "quick" else 32):
        if ctx.mine(k):
            yield {"ctx_seed": ctx.rng("thr", k).getrandbits(32)}


def chk_threads(case, note):
    """four threads inside crc() at once on different frames (switch interval 1 us): every call still returns its own remainder"""
    import random
    from vlib import variants
    rng = random.Random(case["ctx_seed"])
    jobs = []
    for _ in range(16):
        n = rng.choice([56, 112])
        v = rng.getrandbits(n)
        m = tohex(v, n, rng.choice("UL"))
        jobs.append(("crc", pms.crc, (m,), ("ok", crc24.remainder(v, n))))
        jobs.append(("crc", pms.crc, (m, True), ("ok", crc24.parity(v >> 24, n - 24))))
    p = variants.hammer(jobs, nthreads=4, rounds=60)
    note.evals = len(jobs) * 4 * 60
    note.cls("concurrent-callers")
    note.nt(True)
    return p



# ---------------------------------------------------------------- the demodulator's admission test, as a history on one reader
@st.composite
def s_admit(draw):
    """a reader sees valid DF17 frames and, later, copies of them with 1-5 flipped bits or a burst of at most 24 bits - anywhere, or inside
    the parity field only, or inside the data only; interleaved with other aircraft's frames"""
    nvalid = draw(gen.uint(1, 4))
    valid = [crc24.downlink_frame((17 << 83) | draw(gen.ubits(83)), 88, 0) for _ in range(nvalid)]
    seq = []
    for _ in range(draw(gen.uint(2, 12))):
        f = valid[draw(gen.uint(0, nvalid - 1))]
        kind = draw(st.sampled_from(["valid", "valid", "flips", "flips-parity", "flips-data", "burst", "burst-parity", "syndrome-is-a-known-address", "other-format"]))
        e = 0
        if kind == "other-format":
            # replies of the other admissible formats, from transponders the reader may or may not have heard: admitted by length and format alone
            if draw(st.booleans()):
                seq.append(["%014X" % ((draw(st.sampled_from([4, 5, 11])) << 51) | draw(gen.ubits(51))), False, True])
            else:
                seq.append(["%028X" % ((draw(st.sampled_from([20, 21])) << 107) | draw(gen.ubits(107))), False, True])
            continue
        if kind == "syndrome-is-a-known-address":
            # the squitter of one aircraft, then a frame whose parity field is off by exactly that aircraft's address (a burst of <= 24 bits)
            other = valid[draw(gen.uint(0, nvalid - 1))]
            seq.append(["%028X" % other, False])
            e = (other >> 80) & 0xFFFFFF
        if kind.startswith("flips"):
            lo, hi = {"flips": (0, 106), "flips-parity": (0, 23), "flips-data": (24, 106)}[kind]   # bits 107-111 (the DF field) stay: the frame remains DF17
            for b in draw(st.lists(gen.uint(lo, hi), min_size=1, max_size=5, unique=True)):
                e |= 1 << b
        elif kind.startswith("burst"):
            L = draw(gen.uint(2, 24))
            start = draw(gen.uint(0, (24 if kind == "burst-parity" else 107) - L))
            e = (1 | (draw(gen.ubits(L - 2)) << 1 if L > 2 else 0) | 1 << (L - 1)) << start
        if e and (f ^ e) >> 107 != 17:
            e = 0
        seq.append(["%028X" % (f ^ e), e != 0])
    return {"seq": seq, "debug": draw(gen.uint(0, 3)) == 0, "hc": draw(st.sampled_from(["U", "U", "L"]))}


def chk_admit(case, note):
    import contextlib
    import io
    from pyModeS.extra import rtlreader
    rd = variants.make_reader(rtlreader.RtlReader, case["debug"])
    nbad = 0
    seen = []
    for item in case["seq"]:
        msg, corrupted = item[0], item[1]
        if case["hc"] == "L":
            msg = msg.lower()
        with contextlib.redirect_stdout(io.StringIO()):
            r = call(rd._check_msg, msg)
        if r[0] != "ok":
            return "RtlReader(debug=%s)._check_msg(%s) raised %r" % (case["debug"], msg, r[1:])
        want = True if len(item) > 2 else crc24.remainder(int(msg, 16), 112) == 0
        if corrupted and want:
            return "harness: corrupted frame %s has reference remainder 0" % msg   # cannot happen for these error patterns
        if bool(r[1]) != want:
            if len(item) > 2:
                return "RtlReader(debug=%s)._check_msg(%s) -> %r after the reader was shown %r; a DF%d reply of %d digits is admitted by format and length" % (
                    case["debug"], msg, r[1], seen, int(msg[:2], 16) >> 3, len(msg))
            return "RtlReader(debug=%s)._check_msg(%s) -> %r after the reader was shown %r; reference remainder %06X (%s)" % (
                case["debug"], msg, r[1], seen, crc24.remainder(int(msg, 16), 112), "a corrupted copy of a frame seen before" if corrupted else "a valid frame")
        seen.append(msg)
        nbad += corrupted
    note.evals = len(case["seq"])
    note.cls("admission", "debug-reader" if case["debug"] else "default-reader")
    note.nt(nbad > 0 and nbad < len(case["seq"]))
    return None


# ---------------------------------------------------------------- volume: one process, very many distinct frames
def vol_step(a, b, k):
    n = 112 if a & 1 else 56
    v = ((a << 64) | b) >> (128 - n)
    m = "%0*X" % (n // 4, v)
    if a & 2:
        m = m.lower()
    if a & 4:
        got, exp, what = call(pms.crc, m, True), crc24.parity(v >> 24, n - 24), "crc(%s, True)" % m
    else:
        got, exp, what = call(pms.crc, m), crc24.remainder(v, n), "crc(%s)" % m
    if got != ("ok", exp):
        return "%s = %r, reference remainder = %06X" % (what, got, exp)
    return None


# ---------------------------------------------------------------- first calls of a freshly imported package, four threads at once
def first_jobs(rng):
    jobs = []
    for _ in range(40):
        n = rng.choice([56, 112])
        v = rng.getrandbits(n)
        m = tohex(v, n, rng.choice("UL"))
        if rng.random() < 0.5:
            jobs.append(("common.crc", (m,), ("ok", crc24.remainder(v, n))))
        else:
            jobs.append(("common.crc", (m, True), ("ok", crc24.parity(v >> 24, n - 24))))
    return jobs


def chk_demodulated(case, note):
    """the same clause on the sample path: whatever _process_buffer returns as DF17 has remainder 0 (frames with flipped bits, and valid frames
    of which single bits arrive with both chips high and nearly balanced, are among the transmitted ones) - judged by C19's synthesiser"""
    from checks import c19
    return c19.chk_case(case, note)


def s_demodulated():
    from checks import c19
    return c19.s_case()


LEGS = [
    Leg("demodulated", chk_demodulated, strategy=s_demodulated, quick=1500, thorough=40000,
        doc="sample buffers with corrupted and with smeared DF17 frames through RtlReader._process_buffer: no DF17 frame with a non-zero remainder comes out"),
    variants.first_use_leg(first_jobs),
    volume.leg(vol_step, 140000, 1300000, "140 000 (thorough: 1.3 million per process) distinct random frames through crc() in one process, each against the reference division"),
    Leg("admission", chk_admit, strategy=s_admit, quick=6000, thorough=200000,
        doc="RtlReader._check_msg on one reader: valid DF17 frames and corrupted copies of them (1-5 flips / bursts <= 24, also confined to the parity field), debug on and off"),
    Leg("threads", chk_threads, enum=enum_threads, shards_quick=4, shards_thorough=8, doc="concurrent callers of crc() with a 1 us switch interval"),
    Leg("corpus", chk_corpus, enum=enum_corpus, exhaustive=True, doc="2000 real DF17 frames from the repository's sample data: remainder 0 under the reference and both implementations"),
    Leg("three_way", chk_three_way, strategy=s_frame, quick=24000, thorough=800000,
        doc="crc == bit-serial reference == crc_legacy, both modes, both lengths, three letter cases"),
    Leg("parity_closure", chk_closure, strategy=s_closure, quick=16000, thorough=400000,
        doc="encode ignores the parity field; frame+parity checks to 0"),
    Leg("linearity", chk_lin, strategy=s_lin, quick=16000, thorough=400000, doc="crc(a^b)=crc(a)^crc(b)"),
    Leg("detect_direct", chk_direct, enum=enum_direct, quick=4, thorough=48,
        doc="valid frame x every weight<=3 pattern, every burst<=12 at every offset, sampled w4-5 / bursts 13-24"),
    Leg("syndrome_closure", chk_synd, enum=enum_closure, quick=1, thorough=1, exhaustive=True,
        doc="all 1..5-subsets of the implementation's single-bit syndromes are non-zero (pairs/triples meet in the middle)"),
]
