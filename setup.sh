#!/bin/sh
# Offline setup after a fresh restore: make sure /venv can import hypothesis (it normally already can);
# optional extras (atheris for the thorough fuzz tiers) go to /verif/.deps.  Never touches the network.
set -u
cd "$(dirname "$0")"
export PIP_NO_INDEX=1
WH=/opt/veriftools/wheels
mkdir -p .deps evidence replays
/venv/bin/python -c "import hypothesis, sortedcontainers" 2>/dev/null || \
  /venv/bin/pip install --quiet --no-index --find-links $WH --target .deps hypothesis sortedcontainers || exit 1
PYTHONPATH=.deps /venv/bin/python -c "import atheris" 2>/dev/null || \
  /venv/bin/pip install --quiet --no-index --find-links $WH --target .deps atheris 2>/dev/null || \
  echo "setup: atheris not installable; thorough fuzz tiers will report Hypothesis results only"
PYTHONPATH=.deps /venv/bin/python -c "import hypothesis, numpy; print('setup ok: hypothesis', hypothesis.__version__)"
