#!/venv/bin/python
"""Coverage-guided campaign (atheris/libFuzzer) with the semantic oracle of a check inside the target.

usage: atheris_target.py <c14|c16|c17|...> <outdir> [libFuzzer flags...]
The raw bytes are decoded into the same structured case the property's plain check function takes; a case on which the
check reports a problem raises, libFuzzer stores the bytes, and the wrapper (checks/*.py leg `atheris`) decodes them back
into a replayable case.  Writes <outdir>/result.json.
"""
import json
import os
import sys

HERE = os.path.dirname(os.path.dirname(os.path.abspath(__file__)))
sys.path.insert(0, HERE)
sys.path.insert(0, os.path.join(HERE, ".deps"))
os.chdir(HERE)
which, outdir = sys.argv[1], sys.argv[2]
import atheris  # noqa: E402

from vlib import core  # noqa: E402

core.setup_path()
with atheris.instrument_imports(include=["pyModeS"]):
    import importlib

    for m in [k for k in sys.modules if k == "pyModeS" or k.startswith("pyModeS.")]:
        del sys.modules[m]
    import pyModeS  # noqa: F401  (re-imported under instrumentation)
    mod = importlib.import_module("checks." + which)


def decode(data):
    return mod.fuzz_decode(atheris.FuzzedDataProvider(data))


count = [0]
nt_hashes, cls_hist, samples = set(), {}, []


def dump_stats():
    with open(os.path.join(outdir, "stats.json.tmp"), "w") as f:
        json.dump({"cases": count[0], "nt_hashes": sorted(nt_hashes), "classes": cls_hist, "samples": samples}, f)
    os.replace(os.path.join(outdir, "stats.json.tmp"), os.path.join(outdir, "stats.json"))


def one(data):
    case = decode(data)
    if case is None:
        return
    count[0] += 1
    note = core.Note()
    problem = mod.fuzz_check(case, note)
    for c in note.classes:
        cls_hist[c] = cls_hist.get(c, 0) + 1
    if note.nontrivial and len(nt_hashes) < 300000:
        nt_hashes.add(core.case_hash(case if note.key is None else note.key))
        if len(samples) < 3 and count[0] % 97 == 1:
            samples.append(case)
    if count[0] % 2000 == 0:
        dump_stats()   # (atexit handlers do not run under libFuzzer: the last partial block of up to 1999 cases is not in the statistics)
    if problem:
        with open(os.path.join(outdir, "failure.json"), "w") as f:
            json.dump({"case": case, "problem": problem}, f)
        raise AssertionError(problem)


if __name__ == "__main__":
    os.makedirs(outdir, exist_ok=True)
    import atexit  # noqa

    argv = [sys.argv[0]] + sys.argv[3:] + ["-artifact_prefix=" + outdir + "/", os.path.join(outdir, "corpus")]
    os.makedirs(os.path.join(outdir, "corpus"), exist_ok=True)
    atheris.Setup(argv, one)
    try:
        atheris.Fuzz()
    finally:
        pass
