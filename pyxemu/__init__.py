"""Translate the restricted Cython subset used by pyModeS/c_common.pyx into Python with C-type coercions.

No Cython compiler exists on this image, so the *working-tree* .pyx is observed through this emulator
(DESIGN.md 2.5).  Anything outside the supported subset raises Unsupported -> the check exits 2.
Calibration: the emulator applied to the pinned .pyx agrees with the pre-built binary (checks/c15.py leg calibrate).
"""
import array
import functools
import math
import re
import types

CINT = {"int": 32, "long": 64, "char": 8, "Py_ssize_t": 64}


class Unsupported(Exception):
    pass


def wrap_signed(v, bits):
    v &= (1 << bits) - 1
    return v - (1 << bits) if v >> (bits - 1) else v


def coerce(t, v):
    t = t.strip()
    if t in ("str", "bytearray", "array.array", "bytes", "object"):
        return v
    if t == "bint":
        return bool(v)
    if t == "double":
        return float(v)
    if t == "unsigned char":
        if isinstance(v, str):
            v = ord(v)
        return int(v) & 0xFF
    if t == "char":
        if isinstance(v, str):
            v = ord(v)
        return wrap_signed(int(v), 8)
    if t in CINT:
        if isinstance(v, float):
            v = int(v)
        return wrap_signed(int(v), CINT[t])
    raise Unsupported("C type %r" % t)


TYPES = r"(?:unsigned char|char|int|long|double|bint|str|bytearray|array\.array|Py_ssize_t)"


def _strip_comment(expr):
    """drop a trailing # comment (outside string literals) from the right-hand side of a declaration"""
    q = None
    for i, ch in enumerate(expr):
        if q:
            if ch == q:
                q = None
        elif ch in "'\"":
            q = ch
        elif ch == "#":
            return expr[:i].rstrip()
    return expr.rstrip()


def translate(src):
    out = []
    exported = []
    for ln in src.splitlines():
        # C casts of a name, an attribute or a call without nested parentheses: <long> x, <long> c_floor(x), <double> n
        ln = re.sub(r"<\s*((?:unsigned\s+)?(?:long|int|char|double|Py_ssize_t))\s*>\s*([\w\.]+(?:\([^()]*\))?)", r"_ccast('\1', \2)", ln)
        s = ln.strip()
        ind = ln[: len(ln) - len(ln.lstrip())]
        if s.startswith("cimport") or (s.startswith("from ") and " cimport " in s):
            continue
        if s.startswith("@cython."):
            continue
        m = re.match(r"(cdef|cpdef)\s+(%s)\s+(\w+)\((.*)\):\s*$" % TYPES, s)
        if m:
            kind, rt, name, args = m.groups()
            names, ats = [], []
            for a in [a.strip() for a in args.split(",") if a.strip()]:
                default = None
                if "=" in a:
                    a, default = [x.strip() for x in a.split("=")]
                mm = re.match(r"(%s)\s+(\w+)$" % TYPES, a)
                at, an = (mm.group(1), mm.group(2)) if mm else ("object", a)
                names.append(an if default is None else "%s=%s" % (an, default))
                ats.append((an, at))
            if kind == "cpdef":
                exported.append(name)
            out.append("%s@_typed(%r,%r)" % (ind, rt, ats))
            out.append("%sdef %s(%s):" % (ind, name, ", ".join(names)))
            continue
        m = re.match(r"def\s+(\w+)\((.*)\):\s*$", s)
        if m and not ind and re.search(r"(?:^|,)\s*%s\s+\w+" % TYPES, m.group(2)):
            # a Python-visible def whose parameters carry C types: coerce them like a cpdef, the return value stays an object
            name, args = m.groups()
            names, ats = [], []
            for a in [a.strip() for a in args.split(",") if a.strip()]:
                default = None
                if "=" in a:
                    a, default = [x.strip() for x in a.split("=")]
                mm = re.match(r"(%s)\s+(\w+)$" % TYPES, a)
                at, an = (mm.group(1), mm.group(2)) if mm else ("object", a)
                names.append(an if default is None else "%s=%s" % (an, default))
                ats.append((an, at))
            exported.append(name)
            out.append("%s@_typed('object',%r)" % (ind, ats))
            out.append("%sdef %s(%s):" % (ind, name, ", ".join(names)))
            continue
        m = re.match(r"def\s+(\w+)\(", s)
        if m and not ind:
            exported.append(m.group(1))
        m = re.match(r"cdef\s+(%s)(\[[^\]]*\])?\s+(\w+)\s*=\s*(.*)$" % TYPES, s)
        if m:
            t, arr, var, expr = m.groups()
            expr = _strip_comment(expr)
            if arr is not None:
                if arr == "[:]":
                    out.append("%s%s = %s" % (ind, var, expr))  # memoryview: alias of the buffer
                else:
                    out.append("%s%s = list(%s)" % (ind, var, expr))  # C array: copy
            elif t in ("str", "bytearray", "array.array", "bytes"):
                out.append("%s%s = %s" % (ind, var, expr))
            else:
                if expr.count("(") != expr.count(")"):
                    raise Unsupported("multi-line typed initialiser: " + ln)
                out.append("%s%s = _coerce(%r, %s)" % (ind, var, t, expr))
            continue
        m = re.match(r"cdef\s+(%s)(\[[^\]]*\])?\s+(\w+(?:\s*,\s*\w+)*)\s*$" % TYPES, s)
        if m:
            out.append("%spass" % ind)
            continue
        m = re.match(r"cdef\s+(\w+)\s*=\s*(.*)$", s)  # untyped cdef
        if m:
            out.append("%s%s = %s" % (ind, m.group(1), m.group(2)))
            continue
        code = ln.split("#")[0]
        if s.startswith("cdef") or s.startswith("cpdef") or re.search(r"<\s*(?:unsigned\s+)?(?:int|long|double|char|float)\s*>", code):
            raise Unsupported("construct outside the emulated subset: " + ln)
        out.append(ln)
    return "\n".join(out), exported


def _ccast(t, v):
    """C cast: double -> integer truncates toward zero, then wraps to the width of the type."""
    if t == "double":
        return float(v)
    if isinstance(v, float):
        if v != v or v in (float("inf"), float("-inf")):
            raise Unsupported("cast of a non-finite double to an integer type is undefined behaviour in C")
        v = int(v)
    return coerce(t, v)


def _c_acos(x):
    return math.acos(x) if -1 <= x <= 1 else float("nan")


def _typed(rt, ats):
    def deco(f):
        @functools.wraps(f)
        def w(*a, **k):
            a = list(a)
            for idx, (an, at) in enumerate(ats):
                if idx < len(a):
                    if at == "str":
                        if a[idx] is not None and not isinstance(a[idx], str):
                            raise TypeError("Argument %r has incorrect type" % an)
                    else:
                        a[idx] = coerce(at, a[idx])
                elif an in k:
                    if at != "str":
                        k[an] = coerce(at, k[an])
            r = f(*a, **k)
            if rt == "str":
                if r is not None and not isinstance(r, str):
                    raise TypeError("Expected str, got %s" % type(r).__name__)
                return r
            return coerce(rt, r)

        return w

    return deco


def load(path, name="c_common_emu"):
    """Return (module, python_source) for the .pyx at path."""
    with open(path) as f:
        src = f.read()
    py, exported = translate(src)
    mod = types.ModuleType(name)
    g = mod.__dict__
    g.update(_typed=_typed, _coerce=coerce, _ccast=_ccast, array=array, PyBytes_GET_SIZE=len, PyByteArray_GET_SIZE=len,
             cos=math.cos, acos=_c_acos, fabs=math.fabs, pi=math.pi, c_floor=math.floor)
    try:
        exec(compile(py, path + "<emu>", "exec"), g)
    except SyntaxError as e:
        raise Unsupported("translated source does not compile: %s" % e)
    mod.__all__ = [n for n in exported if n in g]
    mod.__file__ = path
    return mod, py
