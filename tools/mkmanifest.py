#!/venv/bin/python
"""Regenerate MANIFEST.json from the table below + the set of checks/cNN.py that exist."""
import json, os
HERE = os.path.dirname(os.path.dirname(os.path.abspath(__file__)))
os.chdir(HERE)
T = {
 "C01": ("Three-way agreement with a bit-serial reference division and crc_legacy on generated frames, parity closure, sampled linearity, exhaustive weight<=3 / burst<=12 injection on valid frames, and an exhaustive syndrome-closure computation that is complete for weight<=5 given linearity. Also 2000 real DF17 frames, string-level parity-field cases and a concurrent-callers leg. Frames whose data parity is a value of its own (FFFFFF, 000000, one bit, the generator's low bits) are constructed by a GF(2) solve.",
         "ref/crc24.py written from Annex 10 and confirmed on 2000 real DF17 frames; implementation linearity is sampled, not proved.",
         "property-based testing (Hypothesis) + exhaustive enumeration against a reference CRC"),
 "C02": ("Generated frames for every DF 0..31, both lengths and three letter cases, built with the AA field or the AP overlay of a reference CRC; exact recovery, None elsewhere, string identity across formats/cases for one transponder, and a strided (thorough: complete) sweep of the 2^24 addresses. Also real DF17/20/21 frames with known addresses, AP fields that repeat data digits, and a concurrent-callers leg. Payloads whose data parity is all ones / zero / one bit / the address / its complement are constructed by a GF(2) solve.",
         "ref/crc24.py AP/PI overlay per Annex 10, confirmed on 10 000 real DF20/21 replies with known addresses.",
         "property-based testing (Hypothesis) + address-space enumeration, round trip through a reference frame builder"),
 "C07": ("Exhaustive enumeration of all 8192 13-bit codes and all 4096 x TC 12-bit fields, each embedded in every carrier format with random contexts, against a Gillham *encoder* written from Annex 10; context independence as a metamorphic relation. Call history on the same string and 937 real frames re-encoded by the reference.",
         "ref/gillham.py encoder (1280 legal codes); metric altitudes judged to < 1 ft.",
         "exhaustive enumeration against the inverse image of a reference Gillham encoder"),
 "C08": ("Exhaustive enumeration of all 8192 identity patterns (Python and emulated Cython squawk, DF5/DF21/TC28 carriers), the full FS x DR x IIS x IDS product, CA x all interrogator codes incl. the corrupt range, and every DF for the guards. Every bit behind the reply fields set / clear (AP or PI field included, by choice of the address) for a quarter of the surveillance sweep and in the all-call leg.",
         "interleave and SI numbering per Annex 10; description strings not asserted.",
         "exhaustive enumeration with random contexts against reference encoders"),
 "C09": ("All 128x2x128 surface movement/track codes exhaustively; every TC19 field swept over its whole range per subtype with the rest random, plus boundary-biased Hypothesis combinations; results compared with the DO-260B encoding rules.",
         "surface speed accepted anywhere inside the DO-260B movement bin; reserved subtypes left to C14.",
         "exhaustive enumeration + property-based testing against the DO-260B field encoding"),
 "C10": ("Every legal character code at every position exhaustively plus random identifications, on TC1-4 (DF17/18) and BDS 2,0 (DF20/21) carriers, with a one-character metamorphic change. Keyword access path, 98 real frames, concurrent callers. Leg sparse: blank and nearly blank identifications, one character at every position among spaces or one filler, one character eight times, digits only.",
         "Annex 10 six-bit alphabet table in the check.",
         "property-based testing (Hypothesis) + exhaustive per-position enumeration, encode/decode round trip"),
 "C11": ("Exhaustive sweep of every raw value x status x sign of all 34 Comm-B fields (BDS 1,0 1,7 4,0 4,4 4,5 5,0 5,3 6,0) with random contexts, judged against a Doc 9871 layout table; each decoder reached through commb.*, bdsXX.* and the deprecated aliases; context independence. Constant and boundary contexts, str-subclass frames, aliasing of cap17's list.",
         "field table ref/doc9871.py written from ICAO Doc 9871; floats to 1e-9.",
         "exhaustive enumeration with random contexts against a reference field table (encode/decode round trip)"),
 "C13": ("Every field of TC28, TC29 subtype 0/1 and TC31 swept over all of its values with the remaining bits random, all position type codes x supplements x versions for the look-ups, monotonicity of bounds and label functions as self-contained cases; judged against DO-260A/B layout tables. The selected heading is compared exactly (360.0 for an encoded 0 is a failure).",
         "ref/do260.py layouts; label strings, reserved codes and supplement-dependent NIC of TC7/8 (v1) not asserted.",
         "exhaustive per-field enumeration against reference layouts"),
 "C15": ("Differential testing of py_common against the working-tree c_common.pyx run through a C-typing emulator (exhaustive for 13/11-bit codes, Hypothesis for frames, floats, addresses), calibration of the emulator against the pre-built binary, and every decoder incl. tell() run in two package copies bound to either module. bin2hex is also compared on frame-length bit strings (56 ... 120 bits).",
         "no Cython compiler exists on the image: the .pyx is observed through /verif/pyxemu (calibrated on the pinned source against the binary); C undefined behaviour is outside its model.",
         "differential property-based testing (Hypothesis) + exhaustive enumeration between two build configurations"),
 "C16": ("Generated Beast / AVR / Skysense streams (0x1A forced into every field) delivered under every single cut, all 1-byte pieces, drawn multi-cuts and every pair of cuts; output after each read compared with the expected frame list computed from the generating frames; NetSource forwarding with a stub pipe. Plus the run() loop on a scripted socket with timeouts, reader->NetSource end to end with repeated frames, bulk Comm-B stretches, and an atheris campaign in the thorough tier.",
         "harness owns the chunking (buffer.extend + reader, as run() does); wall-clock time stamps ignored.",
         "property-based testing (Hypothesis) with exhaustive segmentation enumeration against a reference framer"),
 "C17": ("Rule-based state machine owning the clock: trajectories up to 600 kt across NL bands, equator and antimeridian, surface/airborne toggles, noise and Comm-B traffic, gaps around the 10 s / 60 s / 180 s thresholds; after every flush: no exception, listing model, Comm-B gating and attachment, upper/lower-case table equality, stored positions vs true positions. Plus negative and very large start times, sub-second process_raw calls across the eviction threshold, a decoder without receiver position, and a replay of the repository's real reception log. GNSS-height position type codes (TC 20-22) and the T bit are drawn; Comm-B replies that satisfy the BDS 5,0 and 6,0 layouts at once.",
         "CPR frames from ref/cpr.py; processes/sockets/curses of modeslive are not run; the harness owns timestamps and tnow.",
         "stateful property-based testing (Hypothesis RuleBasedStateMachine) against a reference model + coverage-guided fuzzing (atheris/libFuzzer) of histories in the thorough tier"),
 "C18": ("Uplink frames built from Annex 10 layouts with the uplink AP encoder; UF11 PR x IC x CL exhaustive, UF4/5/20/21 RR x DI x structured+random SD (exhaustive per DI in the thorough tier), every UF; uplink_fields cross-checked with the single-field functions. Repeated calls and aliasing of the returned dict.",
         "uplink AP per Annex 10 3.1.2.3.3.2 in ref/crc24.py; IC for CL 5-7 and DI 2,4,5,6 unconstrained.",
         "property-based testing (Hypothesis) + field-product enumeration, encode/decode round trip"),
 "C19": ("Synthetic pulse-position-modulated sample buffers (1-4 frames, any offset, amplitude 0.3-1.4 with jitter, four noise shapes up to 10 dB below the pulses, corrupted DF17 decoys, consecutive buffers sharing the noise floor) through RtlReader._process_buffer on an instance made without hardware. Per-buffer noise levels, frames up to the buffer end, and the IQ path through _read_callback. Second signal model since round 10: the noise is also present under the pulses (sample = |pulse + noise at a pseudo-random phase|, cut off at 1.414), judged from 14 dB up; corner payloads (empty register / ME field, all ones), the weakest next to the strongest frame, a preamble at sample 0.",
         "noise additionally capped at 0.19 (the preamble matcher takes any sample >= 0.2 as a pulse); frames lie inside their buffer.",
         "property-based testing (Hypothesis) with a signal synthesiser as the reference encoder"),
 "C20": ("Generated altitudes/speeds/Mach numbers and coordinate pairs (tropopause, sea level, antipodal, polar, antimeridian): ISA against an independent implementation and tabulated rows, inverse pairs, strict monotonicity, sea-level identities, orderings, haversine agreement, scalar/array metamorphic relation. Integer scalars and integer-dtype arrays, arrays updated in place. Also unsigned altitude arrays, float32 speeds against the double-precision atmosphere, and every array result kept across later calls of the same shape (it must keep its contents; inputs must be left untouched).",
         "ref/isa.py; compressible round trips judged at 1e-6 relative.",
         "property-based testing (Hypothesis): differential against a reference ISA, round-trip and metamorphic relations"),
 "C12": ("Five generated relations: totality/EMPTY/DF17 map on arbitrary frames; infer == sorted join of the accepting predicates on DF20/21; completeness on register contents built field by field inside the envelope (boundaries included, IAS derived from Mach through an independent ISA for DF20); soundness with exactly one status/reserved/format rule broken; is50or60 arbitration on payloads satisfying both layouts by construction against independently computed velocity-vector distances. Real DF20/21 replies labelled by the reference rules; BDS 5,3 status rules.",
         "reference rules ref/registers.py (Doc 9871 layouts + the envelope quoted in the property); out-of-envelope and sign-bit-only payloads are not judged.",
         "property-based testing (Hypothesis) with constructive generators against reference format rules"),
 "C14": ("Exhaustive cell table DF x TC x 3-bit subtype with zero/one/random payloads; every public decoder, dispatcher, helper, uplink function and tell() called on each cell; outcome compared with a guard table written from the docstrings (value vs RuntimeError), a shape table, and the by-type-code routing of the dispatchers (also on pairs of cells). Plus valid register contents through tell/infer/commb, keyword and str-subclass access paths, and an atheris campaign in the thorough tier.",
         "guard/shape tables in checks/c14.py; functions without a documented restriction are only required to return or raise RuntimeError.",
         "exhaustive cell enumeration with random payloads against a guard/shape table"),
 "C03": ("Generated even/odd airborne pairs from an independent DO-260B reference encoder, dense at every NL transition, pole, equator and antimeridian, all time and argument orders; decoded result compared with the encoded position of the newer frame. Time stamps as int, float and datetime (incl. a DST gap); 924 real pairs re-encoded by the reference encoder.",
         "ref/cpr.py (encoder, NL table cross-checked with the printed DO-260B values, encoder confirmed on 924 real even/odd pairs); tolerance one quantisation step as the property states.",
         "property-based testing (Hypothesis), round trip through a reference CPR encoder"),
 "C04": ("Generated single frames (airborne and surface, both parities) with references drawn anywhere inside the half-zone box incl. its edge, across equator/meridians; round trip through the reference encoder plus metamorphic invariance under moving the reference. Edge offsets 0.5-5e-10 zone, integer references, and the same string decoded earlier against a far reference. References exactly on the antimeridian (180.0, -180.0, 180) and on a pole whenever they lie inside the box; the T bit drawn.",
         "ref/cpr.py; references strictly inside the box (|offset| <= 0.4999 zone).",
         "property-based testing (Hypothesis), round trip + metamorphic relation"),
 "C05": ("Generated surface pairs with receivers drawn by bearing/distance within 45 NM, dense where the 90-degree ambiguity is resolved (equator, lon 0/+-90/+-180) and at NL transitions; round trip through the reference encoder. Time stamps as int, float and datetime, letter case, integer receivers, exchanged time stamps on the same strings.",
         "ref/cpr.py; documented argument order (even, odd); one listed known finding (exact north pole) is excluded by predicate and re-probed on every run.",
         "property-based testing (Hypothesis), round trip through a reference CPR encoder"),
 "C06": ("Exhaustive 0.0005-degree latitude grid (0.00002 thorough) and ulp-level neighbourhoods of all 58 transition latitudes, 0, 87, 90, plus Hypothesis floats, against a reference NL table; evenness and monotonicity; Python module and emulated Cython twin. Exactly +-87.0 must give 2 (the property names that latitude); within 1e-9 deg of any other point of a transition either neighbour is accepted.",
         "reference transitions from the closed form in float64 cross-checked with the DO-260B table; Cython twin seen through /verif/pyxemu.",
         "exhaustive grid enumeration + property-based testing against a reference NL table"),
}
COMMON = (" Every run also: alternates, case by case, between the default and a hostile ambient process state (numpy trapping divide/overflow/invalid, "
          "every warning except deprecation notices as error, 3-digit decimal context, non-default numpy print options); repeats a quarter of the legs' cases in a child interpreter started with PYTHONOPTIMIZE=2 (python -OO) and another fixed hash seed; "
          "re-evaluates earlier cases after later ones; repeats one call in four with every argument passed by name in reverse order (the outcome must not depend on how arguments are passed); re-runs every stored failing input of the property (replays/).")
EXTRA = {
 "volume": "a volume leg (one process decodes 4e4-1.1e6 distinct inputs in a row, comes back to identical inputs and their siblings after 4 100 ... 1 050 000 others, and ends with four concurrent callers)",
 "first_use": "a first-use leg (a fresh copy of the package per trial whose first calls are made by four threads at once)",
 "threads": "a concurrency leg (four callers with a 1 us switch interval)",
 "corpus": "a corpus leg (real recorded frames)",
 "scan_order": "a scan-order leg (neighbour scans across a decision boundary made in opposite orders by two fresh copies of the package; every call's outcome must be the same in both - no reference involved)",
 "atheris_history": "a coverage-guided libFuzzer campaign over message histories with the history oracle inside the target (thorough tier)",
}
import sys
sys.path.insert(0, HERE)
from vlib import core
core.setup_path()
import importlib


def legs_of(pid):
    mod = importlib.import_module("checks." + pid.lower())
    return [l.name for l in mod.LEGS]


props = [json.loads(l) for l in open("properties.jsonl")]
checks, na = [], []
for p in props:
    pid = p["id"]
    if os.path.exists("checks/%s.py" % pid.lower()) and pid in T:
        text, note, tech = T[pid]
        names = legs_of(pid)
        extra = [EXTRA[k] for k in ("volume", "first_use", "threads", "corpus", "scan_order", "atheris_history") if k in names]
        text = text + (" Also " + "; ".join(extra) + "." if extra else "") + " Legs: " + ", ".join(names) + "." + COMMON
        checks.append({"property_id": pid, "quick_cmd": "./check %s --tier quick" % pid, "thorough_cmd": "./check %s --tier thorough" % pid,
                       "evidence_file": "evidence/%s.json" % pid, "replay_cmd_template": "./check %s --replay {path}" % pid, "engine": "pbt",
                       "level_claimed": {"category": "exploration", "text": text, "design_ref": "DESIGN.md section 3, %s" % pid},
                       "level_note": note, "technique": tech})
    else:
        na.append({"property_id": pid, "reason": "check not built yet in this session (work in progress, see DESIGN.md section 6)"})
m = {"version": 1, "setup_cmd": "./setup.sh",
     "hooks": {"guard": "PYMODES_VERIF", "enable": "no source hooks: checks import /repo/src (or $PYMODES_SRC) directly; every stateful component is constructed without hardware or sockets",
               "baseline_off_cmd": "cd /repo && /venv/bin/python -m pytest -q -p no:cacheprovider tests", "source_commits": [], "add_only": True},
     "engines": [{"name": "pbt", "path": "check", "serves_properties": [c["property_id"] for c in checks],
                  "kind_free_text": "Hypothesis strategies and state machines, exhaustive enumerators for finite sub-domains, reference encoders written from the standards as oracles (ref/), sharded over 16 processes"}],
     "checks": checks, "not_applicable": na,
     "notes": "Genuine defects found are repaired by 'fix:' commits in /repo or listed in known_findings.json; see DESIGN.md section 5."}
json.dump(m, open("MANIFEST.json", "w"), indent=1)
print(len(checks), "checks;", len(na), "not yet claimed")
