#!/venv/bin/python
"""Regenerate MANIFEST.json from the table below + the set of checks/cNN.py that exist."""
import json, os
HERE = os.path.dirname(os.path.dirname(os.path.abspath(__file__)))
os.chdir(HERE)
T = {
 "C01": ("Three-way agreement with a bit-serial reference division and crc_legacy on generated frames, parity closure, sampled linearity, exhaustive weight<=3 / burst<=12 injection on valid frames, and an exhaustive syndrome-closure computation that is complete for weight<=5 given linearity.",
         "ref/crc24.py written from Annex 10; implementation linearity is sampled, not proved.",
         "property-based testing (Hypothesis) + exhaustive enumeration against a reference CRC"),
 "C02": ("Generated frames for every DF 0..31, both lengths and three letter cases, built with the AA field or the AP overlay of a reference CRC; exact recovery, None elsewhere, string identity across formats/cases for one transponder, and a strided (thorough: complete) sweep of the 2^24 addresses.",
         "ref/crc24.py AP/PI overlay per Annex 10.",
         "property-based testing (Hypothesis) + address-space enumeration, round trip through a reference frame builder"),
 "C07": ("Exhaustive enumeration of all 8192 13-bit codes and all 4096 x TC 12-bit fields, each embedded in every carrier format with random contexts, against a Gillham *encoder* written from Annex 10; context independence as a metamorphic relation.",
         "ref/gillham.py encoder (1280 legal codes); metric altitudes judged to < 1 ft.",
         "exhaustive enumeration against the inverse image of a reference Gillham encoder"),
 "C08": ("Exhaustive enumeration of all 8192 identity patterns (Python and emulated Cython squawk, DF5/DF21/TC28 carriers), the full FS x DR x IIS x IDS product, CA x all interrogator codes incl. the corrupt range, and every DF for the guards.",
         "interleave and SI numbering per Annex 10; description strings not asserted.",
         "exhaustive enumeration with random contexts against reference encoders"),
 "C09": ("All 128x2x128 surface movement/track codes exhaustively; every TC19 field swept over its whole range per subtype with the rest random, plus boundary-biased Hypothesis combinations; results compared with the DO-260B encoding rules.",
         "surface speed accepted anywhere inside the DO-260B movement bin; reserved subtypes left to C14.",
         "exhaustive enumeration + property-based testing against the DO-260B field encoding"),
 "C10": ("Every legal character code at every position exhaustively plus random identifications, on TC1-4 (DF17/18) and BDS 2,0 (DF20/21) carriers, with a one-character metamorphic change.",
         "Annex 10 six-bit alphabet table in the check.",
         "property-based testing (Hypothesis) + exhaustive per-position enumeration, encode/decode round trip"),
 "C03": ("Generated even/odd airborne pairs from an independent DO-260B reference encoder, dense at every NL transition, pole, equator and antimeridian, all time and argument orders; decoded result compared with the encoded position of the newer frame.",
         "ref/cpr.py (encoder, NL table cross-checked with the printed DO-260B values); tolerance one quantisation step as the property states.",
         "property-based testing (Hypothesis), round trip through a reference CPR encoder"),
 "C04": ("Generated single frames (airborne and surface, both parities) with references drawn anywhere inside the half-zone box incl. its edge, across equator/meridians; round trip through the reference encoder plus metamorphic invariance under moving the reference.",
         "ref/cpr.py; references strictly inside the box (|offset| <= 0.4999 zone).",
         "property-based testing (Hypothesis), round trip + metamorphic relation"),
 "C05": ("Generated surface pairs with receivers drawn by bearing/distance within 45 NM, dense where the 90-degree ambiguity is resolved (equator, lon 0/+-90/+-180) and at NL transitions; round trip through the reference encoder.",
         "ref/cpr.py; documented argument order (even, odd); one listed known finding (exact north pole) is excluded by predicate and re-probed on every run.",
         "property-based testing (Hypothesis), round trip through a reference CPR encoder"),
 "C06": ("Exhaustive 0.0005-degree latitude grid (0.00002 thorough) and ulp-level neighbourhoods of all 58 transition latitudes, 0, 87, 90, plus Hypothesis floats, against a reference NL table; evenness and monotonicity; Python module and emulated Cython twin.",
         "reference transitions from the closed form in float64 cross-checked with the DO-260B table; Cython twin seen through /verif/pyxemu.",
         "exhaustive grid enumeration + property-based testing against a reference NL table"),
}
props = [json.loads(l) for l in open("properties.jsonl")]
checks, na = [], []
for p in props:
    pid = p["id"]
    if os.path.exists("checks/%s.py" % pid.lower()) and pid in T:
        text, note, tech = T[pid]
        checks.append({"property_id": pid, "quick_cmd": "./check %s --tier quick" % pid, "thorough_cmd": "./check %s --tier thorough" % pid,
                       "evidence_file": "evidence/%s.json" % pid, "replay_cmd_template": "./check %s --replay {path}" % pid, "engine": "pbt",
                       "level_claimed": {"category": "exploration", "text": text, "design_ref": "DESIGN.md section 3, %s" % pid},
                       "level_note": note, "technique": tech})
    else:
        na.append({"property_id": pid, "reason": "check not built yet in this session (work in progress, see DESIGN.md section 6)"})
m = {"version": 1, "setup_cmd": "./setup.sh",
     "hooks": {"guard": "PYMODES_VERIF", "enable": "no source hooks: checks import /repo/src (or $PYMODES_SRC) directly; every stateful component is constructed without hardware or sockets",
               "baseline_off_cmd": "cd /repo && /venv/bin/python -m pytest -q -p no:cacheprovider tests", "source_commits": [], "add_only": True},
     "engines": [{"name": "pbt", "path": "check", "serves_properties": [c["property_id"] for c in checks],
                  "kind_free_text": "Hypothesis strategies and state machines, exhaustive enumerators for finite sub-domains, reference encoders written from the standards as oracles (ref/), sharded over 16 processes"}],
     "checks": checks, "not_applicable": na,
     "notes": "Genuine defects found are repaired by 'fix:' commits in /repo or listed in known_findings.json; see DESIGN.md section 5."}
json.dump(m, open("MANIFEST.json", "w"), indent=1)
print(len(checks), "checks;", len(na), "not yet claimed")
