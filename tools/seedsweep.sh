#!/bin/sh
# Quietness sweep: every quick check at several seeds in fresh processes; evidence goes to a scratch dir.
# usage: tools/seedsweep.sh [tier] [seeds...]
cd "$(dirname "$0")/.."
tier=${1:-quick}; shift 2>/dev/null
seeds=${*:-"2 3 4 5 6"}
out=$(mktemp -d /var/tmp/pmssweep.XXXXXX)
bad=0
for s in $seeds; do
  for p in ${PROPS:-C01 C02 C03 C04 C05 C06 C07 C08 C09 C10 C11 C12 C13 C14 C15 C16 C17 C18 C19 C20}; do
    t0=$(date +%s)
    VERIF_SEED=$s VERIF_EVIDENCE_DIR=$out ./check $p --tier $tier > $out/$p.$s.log 2>&1
    rc=$?
    t1=$(date +%s)
    echo "seed=$s $p exit=$rc $((t1-t0))s $(grep -c KNOWN-FINDING $out/$p.$s.log) known"
    if [ $rc -ne 0 ]; then bad=1; grep -e VIOLATION -e failing -e HARNESS $out/$p.$s.log | head -5; fi
  done
done
rm -rf $out
echo "sweep done bad=$bad"
exit $bad
