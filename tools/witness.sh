#!/bin/sh
# tools/witness.sh <fix-commit> <PROP> [legs]  - run PROP's quick check against the tree just before <fix-commit>
# (exported to a scratch dir) and copy the shrunk failing case into replays/.
set -e
cd "$(dirname "$0")/.."
c=$1; p=$2; legs=${3:-}
d=$(mktemp -d /var/tmp/pmswit.XXXXXX)
git -C /repo archive "$c^" src | tar -x -C "$d"
PYMODES_SRC=$d/src VERIF_EVIDENCE_DIR=$d/out ./check $p ${legs:+--legs $legs} > $d/log 2>&1 || true
grep -e "failing leg" -e VIOLATION $d/log | cut -c1-220
for f in $d/out/$p-*.json; do [ -f "$f" ] && cp "$f" replays/ && echo "kept replays/$(basename $f)"; done
rm -rf "$d"
