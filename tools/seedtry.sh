#!/bin/sh
# tools/seedtry.sh <PROP> <n> [round] [tier] - dry run of a seeded change in its scratch worktree (PYMODES_SRC), /repo untouched
cd "$(dirname "$0")/.."
P=$1; N=$2; R=${3:-4}; TIER=${4:-quick}; CP=${5:-$1}   # CP: the check to run (a change filed under one property may break another)
S=/tmp/seed$R-$P/$N; W=/tmp/wt$R-$P
git -C $W checkout -q -- . ; git -C $W clean -fdq; git -C $W checkout -q --detach $(git -C /repo rev-parse HEAD); git -C $W apply $S/patch.diff 2>/dev/null || git -C $W apply -3 $S/patch.diff || exit 2
d=$(mktemp -d /var/tmp/seedtry.XXXX)
t0=$(date +%s)
PYMODES_SRC=$W/src VERIF_EVIDENCE_DIR=$d ./check $CP --tier $TIER > $d/log 2>&1; rc=$?
t1=$(date +%s)
echo "$P-r$R-$N: exit=$rc $((t1-t0))s $(grep 'failing leg' $d/log | head -2 | cut -c1-300)"
[ $rc -eq 2 ] && tail -5 $d/log
git -C $W checkout -q -- .; git -C $W clean -fdq
rm -rf $d
