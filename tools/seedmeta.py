#!/usr/bin/env python3
"""tools/seedmeta.py <round> <rows.json>: add round / what / outcome to seeded/<id>/meta.json and append the round's table to seeded/README.md.
rows.json: {"C01-r9-1": ["what it needs to manifest", "outcome (caught by ... / missed ...)"], ...}"""
import json, os, sys
HERE = os.path.dirname(os.path.dirname(os.path.abspath(__file__)))
rnd, rows = int(sys.argv[1]), json.load(open(sys.argv[2]))
lines = []
for sid in sorted(rows):
    what, outcome = rows[sid]
    mp = os.path.join(HERE, "seeded", sid, "meta.json")
    meta = json.load(open(mp))
    meta.update(round=rnd, what=what, outcome=outcome)
    json.dump(meta, open(mp, "w"), indent=1)
    secs = meta.get("check_run", {}).get("seconds")
    lines.append("| %s | %s | %s |" % (sid, what, outcome))
print("\n".join(lines))
