#!/usr/bin/env python3
"""Validate MANIFEST.json and evidence/*.json against the schemas (needs jsonschema: run with python3-vt)."""
import glob, json, sys
import jsonschema
ok = True
def v(path, schema):
    global ok
    try:
        jsonschema.validate(json.load(open(path)), json.load(open(schema)))
        print("valid  ", path)
    except Exception as e:
        ok = False
        print("INVALID", path, str(e)[:300])
import os
if os.path.exists("MANIFEST.json"):
    v("MANIFEST.json", "/root/.vp/MANIFEST.schema.json")
for f in sorted(glob.glob("evidence/*.json")):
    v(f, "/root/.vp/EVIDENCE.schema.json")
sys.exit(0 if ok else 1)
