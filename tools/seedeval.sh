#!/bin/sh
# tools/seedeval.sh <PROP> <n> [tier]  - confirm a seeded change (/tmp/seed-<PROP>/<n>) in its scratch worktree, store it under
# seeded/<PROP>-<n>/, then apply it to /repo, run the property's check, and undo it straight afterwards.
cd "$(dirname "$0")/.."
P=$1; N=$2; TIER=${3:-quick}; R=${4:-1}
if [ "$R" = "1" ]; then S=/tmp/seed-$P/$N; W=/tmp/wt-$P; D=seeded/$P-$N; else S=/tmp/seed$R-$P/$N; W=/tmp/wt$R-$P; D=seeded/$P-r$R-$N; fi
[ -f $S/patch.diff ] || { echo "no $S/patch.diff"; exit 2; }
mkdir -p $D; cp $S/patch.diff $S/demo.py $D/; [ -f $S/notes.txt ] && cp $S/notes.txt $D/
git -C $W checkout -q -- . ; git -C $W clean -fdq
( cd $W && PYTHONPATH=$W/src /venv/bin/python $S/demo.py >/dev/null 2>&1 ); clean_demo=$?
git -C $W apply $S/patch.diff || { echo "patch does not apply"; exit 2; }
tests=$( cd $W && PYTHONPATH=$W/src /venv/bin/python -m pytest -q -p no:cacheprovider tests 2>&1 | tail -1 )
( cd $W && PYTHONPATH=$W/src /venv/bin/python $S/demo.py >/dev/null 2>&1 ); mut_demo=$?
git -C $W checkout -q -- .; git -C $W clean -fdq   # (a change may add files)
echo "worktree: demo clean exit=$clean_demo, with change exit=$mut_demo, tests: $tests"
if [ -n "$SEEDEVAL_WORKTREE" ]; then
  # a background sweep is reading /repo/src: run the check against the scratch worktree moved to /repo's HEAD with the change applied
  git -C $W checkout -q --detach $(git -C /repo rev-parse HEAD)
  if [ -f $S/patch.rebased.diff ]; then cp $S/patch.rebased.diff $D/; git -C $W apply $S/patch.rebased.diff || exit 2; else git -C $W apply $S/patch.diff 2>/dev/null || git -C $W apply -3 $S/patch.diff || exit 2; fi
  t0=$(date +%s)
  E=$(mktemp -d /var/tmp/seedev.XXXX)
  PYMODES_SRC=$W/src VERIF_EVIDENCE_DIR=$E ./check $P --tier $TIER > /tmp/seedeval.$P.$N.log 2>&1; rc=$?
  rm -rf $E
  t1=$(date +%s)
  git -C $W reset -q --hard; git -C $W checkout -q -- .; git -C $W clean -fdq
  leg=$(grep "failing leg" /tmp/seedeval.$P.$N.log | head -1 | cut -c1-260)
  echo "check $P ($TIER, worktree at /repo HEAD): exit=$rc in $((t1-t0))s $leg"
  cat > $D/meta.json <<EOM
{"property": "$P", "source": "independent sub-agent given only the property text and a scratch worktree",
 "confirmed": {"demo_exit_unchanged_tree": $clean_demo, "demo_exit_with_change": $mut_demo, "repository_tests_with_change": "$tests"},
 "applied_to_repo": "scratch worktree checked out at /repo HEAD (PYMODES_SRC), because a background sweep was reading /repo/src", "check_run": {"command": "./check $P --tier $TIER", "exit": $rc, "seconds": $((t1-t0))}}
EOM
  exit 0
fi
[ -z "$(git -C /repo status --short)" ] || { echo "/repo is not clean"; exit 2; }
how=plain
if [ -f $S/patch.rebased.diff ]; then
  # the same edit re-cut against the current /repo HEAD (a later fix: commit touched neighbouring lines)
  cp $S/patch.rebased.diff $D/; how=rebased
  git -C /repo apply $S/patch.rebased.diff || { echo "rebased patch does not apply"; exit 2; }
elif ! git -C /repo apply $S/patch.diff 2>/dev/null; then
  # /repo has moved on since the scratch worktree was cut (later fix: commits): merge the change three-way
  how=3way
  git -C /repo apply -3 $S/patch.diff >/dev/null 2>&1 || { git -C /repo reset -q --hard HEAD; echo "patch does not apply to /repo (even three-way)"; exit 2; }
fi
t0=$(date +%s)
E=$(mktemp -d /var/tmp/seedev.XXXX)
VERIF_EVIDENCE_DIR=$E ./check $P --tier $TIER > /tmp/seedeval.$P.$N.log 2>&1; rc=$?
rm -rf $E
t1=$(date +%s)
git -C /repo reset -q --hard HEAD; git -C /repo clean -fdq -- src   # (a change may add files under src)
git -C /repo status --short | head -3
leg=$(grep "failing leg" /tmp/seedeval.$P.$N.log | head -1 | cut -c1-260)
echo "check $P ($TIER): exit=$rc in $((t1-t0))s $leg"
cat > $D/meta.json <<EOM
{"property": "$P", "source": "independent sub-agent given only the property text and a scratch worktree",
 "confirmed": {"demo_exit_unchanged_tree": $clean_demo, "demo_exit_with_change": $mut_demo, "repository_tests_with_change": "$tests"},
 "applied_to_repo": "$how", "check_run": {"command": "./check $P --tier $TIER", "exit": $rc, "seconds": $((t1-t0))}}
EOM
