#!/bin/sh
# tools/seedeval.sh <PROP> <n> [tier]  - confirm a seeded change (/tmp/seed-<PROP>/<n>) in its scratch worktree, store it under
# seeded/<PROP>-<n>/, then apply it to /repo, run the property's check, and undo it straight afterwards.
cd "$(dirname "$0")/.."
P=$1; N=$2; TIER=${3:-quick}; R=${4:-1}
if [ "$R" = "1" ]; then S=/tmp/seed-$P/$N; W=/tmp/wt-$P; D=seeded/$P-$N; else S=/tmp/seed$R-$P/$N; W=/tmp/wt$R-$P; D=seeded/$P-r$R-$N; fi
[ -f $S/patch.diff ] || { echo "no $S/patch.diff"; exit 2; }
mkdir -p $D; cp $S/patch.diff $S/demo.py $D/; [ -f $S/notes.txt ] && cp $S/notes.txt $D/
git -C $W checkout -q -- . ; 
( cd $W && PYTHONPATH=$W/src /venv/bin/python $S/demo.py >/dev/null 2>&1 ); clean_demo=$?
git -C $W apply $S/patch.diff || { echo "patch does not apply"; exit 2; }
tests=$( cd $W && PYTHONPATH=$W/src /venv/bin/python -m pytest -q -p no:cacheprovider tests 2>&1 | tail -1 )
( cd $W && PYTHONPATH=$W/src /venv/bin/python $S/demo.py >/dev/null 2>&1 ); mut_demo=$?
git -C $W checkout -q -- .
echo "worktree: demo clean exit=$clean_demo, with change exit=$mut_demo, tests: $tests"
git -C /repo apply $S/patch.diff || { echo "patch does not apply to /repo"; exit 2; }
t0=$(date +%s)
VERIF_EVIDENCE_DIR=$(mktemp -d /var/tmp/seedev.XXXX) ./check $P --tier $TIER > /tmp/seedeval.$P.$N.log 2>&1; rc=$?
t1=$(date +%s)
git -C /repo checkout -q -- .
git -C /repo status --short | head -3
leg=$(grep "failing leg" /tmp/seedeval.$P.$N.log | head -1 | cut -c1-260)
echo "check $P ($TIER): exit=$rc in $((t1-t0))s $leg"
cat > $D/meta.json <<EOM
{"property": "$P", "source": "independent sub-agent given only the property text and a scratch worktree",
 "confirmed": {"demo_exit_unchanged_tree": $clean_demo, "demo_exit_with_change": $mut_demo, "repository_tests_with_change": "$tests"},
 "check_run": {"command": "./check $P --tier $TIER", "exit": $rc, "seconds": $((t1-t0))}}
EOM
