#!/venv/bin/python
"""tools/seedregress.py [--tier quick] [--jobs 2] [--only PREFIX ...]

Regression of the sensitivity record: every change stored under seeded/<id>/ is applied to a scratch worktree of /repo's HEAD
(outside /repo and /verif, removed afterwards) and the quick check of the property named in its meta.json is run against it through
PYMODES_SRC.  Expected: exit 1 for every change whose stored meta.json says the check reported it (exit 1), anything for the ones
recorded as not counted (exit 0 in meta.json).  Not a registered check; /repo's working tree is never touched.
"""
import argparse
import concurrent.futures as cf
import json
import os
import shutil
import subprocess
import sys
import tempfile
import time

VERIF = os.path.dirname(os.path.dirname(os.path.abspath(__file__)))


def one(sid, tier):
    d = os.path.join(VERIF, "seeded", sid)
    meta = json.load(open(os.path.join(d, "meta.json")))
    prop = meta["property"]
    # a change filed under one property but recorded as reported by another check
    props = [prop] + [p for p in meta.get("also_checked_by", []) if p != prop]
    scratch = tempfile.mkdtemp(prefix="pmsseed-", dir=os.environ.get("SCRATCH", "/var/tmp"))
    wt = os.path.join(scratch, "wt")
    out = []
    try:
        subprocess.run(["git", "-C", "/repo", "worktree", "add", "-q", "--detach", wt, "HEAD"], check=True, capture_output=True)
        applied = None
        for name in ("patch.rebased.diff", "patch.diff"):
            p = os.path.join(d, name)
            if not os.path.exists(p):
                continue
            for extra in ([], ["-3"]):
                r = subprocess.run(["git", "-C", wt, "apply"] + extra + [p], capture_output=True, text=True)
                if r.returncode == 0:
                    applied = name + (" (3-way)" if extra else "")
                    break
                subprocess.run(["git", "-C", wt, "reset", "-q", "--hard"], capture_output=True)
            if applied:
                break
        if not applied:
            return sid, prop, "DOES-NOT-APPLY", meta.get("check_run", {}).get("exit")
        for pr in props:
            env = dict(os.environ, PYMODES_SRC=wt + "/src", VERIF_EVIDENCE_DIR=scratch + "/ev")
            t0 = time.time()
            r = subprocess.run([VERIF + "/check", pr, "--tier", tier], env=env, capture_output=True, text=True)
            leg = [l for l in r.stdout.splitlines() if "failing leg" in l][:1]
            out.append("%s exit=%d %.0fs %s" % (pr, r.returncode, time.time() - t0, leg[0][:140] if leg else ""))
            if r.returncode == 2:
                out.append(r.stderr[-600:])
            if r.returncode == 1:
                break
        return sid, prop, " | ".join(out), meta.get("check_run", {}).get("exit")
    finally:
        subprocess.run(["git", "-C", "/repo", "worktree", "remove", "--force", wt], capture_output=True)
        shutil.rmtree(scratch, ignore_errors=True)


def main():
    ap = argparse.ArgumentParser()
    ap.add_argument("--tier", default="quick")
    ap.add_argument("--jobs", type=int, default=2)
    ap.add_argument("--only", nargs="*")
    a = ap.parse_args()
    ids = sorted(x for x in os.listdir(os.path.join(VERIF, "seeded")) if os.path.exists(os.path.join(VERIF, "seeded", x, "meta.json")))
    if a.only:
        ids = [i for i in ids if any(i.startswith(p) for p in a.only)]
    bad = 0
    with cf.ThreadPoolExecutor(a.jobs) as ex:
        for sid, prop, res, was in ex.map(lambda s: one(s, a.tier), ids):
            now = 1 if " exit=1 " in res + " " else (2 if "exit=2" in res or "APPLY" in res else 0)
            flag = "ok  " if (was == now or was != 1) and now != 2 else "REGRESSION"
            if flag != "ok  ":
                bad += 1
            print(flag, sid, "recorded=%s" % was, res, flush=True)
    print("%d changes, %d not as recorded" % (len(ids), bad))
    subprocess.run(["git", "-C", "/repo", "worktree", "prune"], capture_output=True)
    return 1 if bad else 0


sys.exit(main())
