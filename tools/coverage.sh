#!/bin/sh
# Statement coverage of /repo/src/pyModeS reached by the quick tiers (single process per check so that coverage sees everything).
# Not a registered check: a blind-spot finder for the generators.   usage: tools/coverage.sh [PROP ...]
cd "$(dirname "$0")/.."
out=$(mktemp -d /var/tmp/pmscov.XXXXXX)
props=${*:-"C01 C02 C03 C04 C05 C06 C07 C08 C09 C10 C11 C12 C13 C14 C15 C16 C17 C18 C19 C20"}
export PYTHONHASHSEED=0 VERIF_NPROC=1 VERIF_EVIDENCE_DIR=$out COVERAGE_FILE=$out/.coverage
echo $props | tr ' ' '\n' | xargs -P 8 -I{} sh -c "/venv/bin/python -m coverage run -p --source=/repo/src/pyModeS ./check {} > $out/{}.log 2>&1; echo {} exit=\$?"
cd $out && /venv/bin/python -m coverage combine -q && /venv/bin/python -m coverage report -i -m --skip-covered 2>&1 | tail -45
rm -rf $out
