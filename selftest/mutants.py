"""Hand-written mutants (each passes the repository's own 36 tests unless noted)."""
MUTANTS = []
def M(id, prop, file, old, new, equivalent=False, all=False, nth=None):
    MUTANTS.append(dict(id=id, prop=prop, file=file, old=old, new=new, equivalent=equivalent, all=all, nth=nth))

# ---- C01
M("c01-shift7", "C01", "py_common.py", "0xFF & ((G[0] << 8 - ibit) | (G[1] >> ibit))", "0xFF & ((G[0] << 8 - ibit) | (G[1] >> (ibit + (ibit == 7))))")
M("c01-range", "C01", "py_common.py", "for ibyte in range(len(mbytes) - 3):", "for ibyte in range(len(mbytes) - 3 - (len(mbytes) == 7 and mbytes[0] == 0xA5)):")
M("c01-enc5", "C01", "py_common.py", 'msg = msg[:-6] + "000000"', 'msg = msg[:-5] + "00000"')
M("c01-legacy", "C01", "py_common.py", "msgnpbin[-24:] = [0] * 24", "msgnpbin[-23:] = [0] * 23")

# ---- C06
M("c06-nz", "C06", "py_common.py", "    nz = 15\n", "    nz = 14\n")
M("c06-gt86", "C06", "py_common.py", "    elif lat > 87 or lat < -87:", "    elif lat > 87 or lat < -87.5:")
M("c06-round", "C06", "py_common.py", "    NL = floor(nl)\n    return NL", "    NL = int(round(nl))\n    return NL")
M("c06-pyx-neg", "C06", "c_common.pyx", "    elif lat > 87 or lat < -87:", "    elif lat > 87 or lat < -88:")
M("c06-pyx-fabs", "C06", "c_common.pyx", "cdef double b = cos(pi / 180 * fabs(lat)) ** 2", "cdef double b = cos(pi / 180 * fabs(lat) * 1.0000001) ** 2")
M("c06-pyx-tol-equiv", "C06", "c_common.pyx", "1e-08 + 1e-05 * 87", "1e-08 + 1e-04 * 87", equivalent=True)

# ---- C03
M("c03-mod60", "C03", "decoder/bds/bds05.py", "lat_odd = float(air_d_lat_odd * (j % 59 + cprlat_odd))", "lat_odd = float(air_d_lat_odd * (j % 60 + cprlat_odd))")
M("c03-gt270", "C03", "decoder/bds/bds05.py", "    if lat_even >= 270:", "    if lat_even > 270:")
M("c03-ni", "C03", "decoder/bds/bds05.py", "        ni = max(common.cprNL(lat) - 1, 1)\n        m = common.floor(cprlon_even * (nl - 1) - cprlon_odd * nl + 0.5)\n        lon = (360 / ni) * (m % ni + cprlon_odd)", "        ni = max(common.cprNL(lat) - 1, 2)\n        m = common.floor(cprlon_even * (nl - 1) - cprlon_odd * nl + 0.5)\n        lon = (360 / ni) * (m % ni + cprlon_odd)")
M("c03-lon180-equiv", "C03", "decoder/bds/bds05.py", "    if lon > 180:\n        lon = lon - 360\n\n    return lat, lon\n\n\ndef airborne_position_with_ref", "    if lon >= 180:\n        lon = lon - 360\n\n    return lat, lon\n\n\ndef airborne_position_with_ref", equivalent=True)
M("c03-noswap", "C03", "decoder/bds/bds05.py", "        mb0, mb1 = mb1, mb0\n        t0, t1 = t1, t0", "        mb0, mb1 = mb1, mb0")
M("c03-nogate", "C03", "decoder/bds/bds05.py", "    if common.cprNL(lat_even) != common.cprNL(lat_odd):\n        return None\n\n    # compute ni, longitude index m, and longitude\n    # (people pass int+int or datetime+datetime)\n    if t0 > t1:  # type: ignore\n        lat = lat_even\n        nl = common.cprNL(lat)", "    if False:\n        return None\n\n    # compute ni, longitude index m, and longitude\n    # (people pass int+int or datetime+datetime)\n    if t0 > t1:  # type: ignore\n        lat = lat_even\n        nl = common.cprNL(lat)")
M("c03-route", "C03", "decoder/adsb.py", "    elif 20 <= tc0 <= 22 and 20 <= tc1 <= 22:", "    elif 20 <= tc0 <= 21 and 20 <= tc1 <= 22:")

# ---- C04
M("c04-half", "C04", "decoder/bds/bds05.py", "    j = common.floor(0.5 + lat_ref / d_lat - cprlat)", "    j = common.floor(0.4 + lat_ref / d_lat - cprlat)")
M("c04-dlat", "C04", "decoder/bds/bds06.py", "    d_lat = 90 / 59 if i else 90 / 60", "    d_lat = 90 / 60 if i else 90 / 59")
M("c04-ni2", "C04", "decoder/bds/bds05.py", "    if ni > 0:\n        d_lon = 360 / ni", "    if ni > 2:\n        d_lon = 360 / ni")
M("c04-surf-fallback", "C04", "decoder/bds/bds06.py", "    else:\n        d_lon = 90\n", "    else:\n        d_lon = 360\n")
M("c04-route", "C04", "decoder/adsb.py", "    if 5 <= tc <= 8:\n        return surface_position_with_ref(msg, lat_ref, lon_ref)", "    if 5 <= tc <= 7:\n        return surface_position_with_ref(msg, lat_ref, lon_ref)")
M("c04-mfloor", "C04", "decoder/bds/bds06.py", "    m = common.floor(0.5 + lon_ref / d_lon - cprlon)", "    m = int(0.5 + lon_ref / d_lon - cprlon)")

# ---- C05
M("c05-no270", "C05", "decoder/bds/bds06.py", "    lons = [lon, lon + 90, lon + 180, lon + 270]", "    lons = [lon, lon + 90, lon + 180]")
M("c05-360ni", "C05", "decoder/bds/bds06.py", "        lon = (90 / ni) * (m % ni + cprlon_even)", "        lon = (360 / ni) * (m % ni + cprlon_even)")
M("c05-D4-regress", "C05", "decoder/bds/bds06.py", "    if abs(lat_ref - lat_odd_n) <= abs(lat_ref - lat_odd_s):", "    if lat_ref > 0:")
M("c05-D5-regress", "C05", "decoder/bds/bds06.py", "    dls = [abs((lon_ref - lon + 180) % 360 - 180) for lon in lons]", "    dls = [abs(lon_ref - lon) for lon in lons]")
M("c05-noref", "C05", "decoder/adsb.py", "        if lat_ref is None or lon_ref is None:", "        if lat_ref is None and lon_ref is None:")
M("c05-timeorder", "C05", "decoder/bds/bds06.py", "    if t0 > t1:  # type: ignore\n        lat = lat_even\n        nl = common.cprNL(lat_even)", "    if t0 >= t1:  # type: ignore\n        lat = lat_even\n        nl = common.cprNL(lat_even)", equivalent=True)

# ---- C07
M("c07-swap", "C07", "py_common.py", "graystr = D2 + D4 + A1 + A2 + A4 + B1 + B2 + B4 + C1 + C2 + C4", "graystr = B2 + D4 + A1 + A2 + A4 + B1 + D2 + B4 + C1 + C2 + C4")
M("c07-n100", "C07", "py_common.py", "    if n100 == 7:\n        n100 = 5\n", "    if n100 == 7:\n        n100 = 4\n")
M("c07-slice", "C07", "py_common.py", "            vbin = binstr[:6] + binstr[7] + binstr[9:]", "            vbin = binstr[:6] + binstr[8] + binstr[9:]")
M("c07-offset", "C07", "py_common.py", "alt = bin2int(vbin) * 25 - 1000", "alt = bin2int(vbin) * 25 - 1000 + (25 if bin2int(vbin) == 1201 else 0)")
M("c07-gnss", "C07", "decoder/bds/bds05.py", "        return common.bin2int(altbin) * 3.28084  # type: ignore", "        return common.bin2int(altbin[1:]) * 3.28084  # type: ignore")
M("c07-widen", "C07", "decoder/bds/bds05.py", '        altcode = altbin[0:6] + "0" + altbin[6:]', '        altcode = altbin[0:7] + "0" + altbin[7:]')
M("c07-surface", "C07", "decoder/adsb.py", "    elif tc >= 5 and tc <= 8:\n        # surface position, altitude 0\n        return 0", "    elif tc >= 5 and tc <= 8:\n        # surface position, altitude 0\n        return None")
M("c07-illegal", "C07", "py_common.py", "    if n100 in [0, 5, 6]:\n        return None", "    if n100 in [0, 6]:\n        return None")

# ---- C08
M("c08-swapB", "C08", "py_common.py", "    byte2 = int(B4 + B2 + B1, 2)", "    byte2 = int(B2 + B4 + B1, 2)")
M("c08-iis", "C08", "decoder/surv.py", "    iis = common.bin2int(msgbin[13:17])", "    iis = common.bin2int(msgbin[13:16])")
M("c08-corrupt", "C08", "decoder/allcall.py", "    if remainder > 79:", "    if remainder > 63:")
M("c08-guard", "C08", "decoder/surv.py", "        if df not in [4, 5]:", "        if df not in [4, 5, 20]:")
M("c08-tc28", "C08", "decoder/bds/bds61.py", "    idcode = msgbin[43:56]", "    idcode = msgbin[44:57]")
M("c08-pyx-D1", "C08", "c_common.pyx", "    if len(binstr) != 13 or not set(binstr).issubset(set('01')):", "    if len(binstr) != 13 or set(binstr) != set('01'):")
M("c08-pyx-perm", "C08", "c_common.pyx", "    cdef unsigned char B2 = mbin[9]\n    cdef unsigned char D2 = mbin[10]", "    cdef unsigned char B2 = mbin[10]\n    cdef unsigned char D2 = mbin[9]")
M("c08-si", "C08", "decoder/allcall.py", '        IC = "SI" + str(remainder - 16)', '        IC = "SI" + str(remainder - 15)')
M("c08-idcode-df", "C08", "py_common.py", "    if df(msg) not in [5, 21]:", "    if df(msg) not in [5, 21, 4]:")

# ---- C02
M("c02-or", "C02", "py_common.py", '        addr = "%06X" % (c0 ^ c1)', '        addr = "%06X" % (c0 | c1)')
M("c02-df16", "C02", "py_common.py", "    elif DF in (0, 4, 5, 16, 20, 21):", "    elif DF in (0, 4, 5, 20, 21):")
M("c02-slice", "C02", "py_common.py", "        addr = msg[2:8].upper()", "        addr = (msg[2:7] + msg[7].replace('f', 'F').replace('F', 'E')).upper()")
M("c02-lowerx", "C02", "py_common.py", '        addr = "%06X" % (c0 ^ c1)', '        addr = "%06x" % (c0 ^ c1)')
M("c02-D3-regress", "C02", "py_common.py", "        addr = msg[2:8].upper()", "        addr = msg[2:8]")
M("c02-adsb-icao", "C02", "decoder/adsb.py", "def icao(msg: str) -> None | str:\n    return common.icao(msg)", "def icao(msg: str) -> None | str:\n    return common.icao(msg) if common.df(msg) != 16 else None")

# ---- C10
M("c10-slice", "C10", "decoder/bds/bds08.py", "    cs += chars[common.bin2int(csbin[18:24])]", "    cs += chars[common.bin2int(csbin[18:23])]")
M("c10-table", "C10", "decoder/bds/bds08.py", 'chars = "#ABCDEFGHIJKLMNOPQRSTUVWXYZ#####_###############0123456789######"\n    msgbin', 'chars = "#ABCDEFGHIJKLMNOPQRSTUVWXYZ####_################0123456789######"\n    msgbin')
M("c10-cat", "C10", "decoder/bds/bds08.py", "    return common.bin2int(mebin[5:8])", "    return common.bin2int(mebin[4:7])")
M("c10-cs20", "C10", "decoder/bds/bds20.py", "    cs += chars[common.bin2int(d[50:56])]", "    cs += chars[common.bin2int(d[50:55] + d[49])]")
M("c10-digit", "C10", "decoder/bds/bds20.py", 'chars = "#ABCDEFGHIJKLMNOPQRSTUVWXYZ#####_###############0123456789######"\n\n    d = ', 'chars = "#ABCDEFGHIJKLMNOPQRSTUVWXYZ#####_###############0123456798######"\n\n    d = ')

# ---- C09
M("c09-minus1", "C09", "decoder/bds/bds09.py", "            v_ew = v_ew - 1  # east-west velocity", "            v_ew = v_ew  # east-west velocity")
M("c09-x4", "C09", "decoder/bds/bds09.py", "        if subtype == 4 and spd is not None:  # Supersonic\n            spd *= 4", "        if subtype == 4 and spd is not None:  # Supersonic\n            spd *= 2")
M("c09-vrbits", "C09", "decoder/bds/bds09.py", '    vr_source = "GNSS" if mb[35] == "0" else "BARO"\n    vr_sign = -1 if mb[36] == "1" else 1', '    vr_source = "GNSS" if mb[36] == "0" else "BARO"\n    vr_sign = -1 if mb[35] == "1" else 1')
M("c09-atan2", "C09", "decoder/bds/bds09.py", "            trk = math.atan2(v_we, v_sn)", "            trk = math.atan2(v_sn, v_we)")
M("c09-movlb", "C09", "decoder/bds/bds06.py", "        mov_lb = [2, 9, 13, 39, 94, 109, 124]", "        mov_lb = [2, 9, 13, 40, 94, 109, 124]")
M("c09-trk127", "C09", "decoder/bds/bds06.py", "        trk = common.bin2int(mb[13:20]) * 360 / 128", "        trk = common.bin2int(mb[13:20]) * 360 / 127")
M("c09-D7-regress", "C09", "decoder/bds/bds09.py", "    if subtype in (1, 2) and (", "    if subtype in (1, 2, 3) and (")
M("c09-diff", "C09", "decoder/bds/bds09.py", "        return sign * (value - 1) * 25  # in ft.", "        return sign * (value - 1) * 25 if value != 64 else sign * 1600  # in ft.")
M("c09-tas", "C09", "decoder/bds/bds09.py", '        if mb[24] == "0":\n            spd_type = "IAS"', '        if mb[24] == "0" or subtype == 4:\n            spd_type = "IAS"')
M("c09-sh", "C09", "decoder/adsb.py", "    return spd, trk_or_hdg\n", "    return spd, trk_or_hdg if tag != 'TAS' else None\n")

# ---- C11
M("c11-slice", "C11", "decoder/bds/bds50.py", "    spd = common.bin2int(d[24:34]) * 2  # kts", "    spd = common.bin2int(d[25:34]) * 2  # kts")
M("c11-twos", "C11", "decoder/bds/bds50.py", "    if sign:\n        value = value - 512\n\n    angle = value * 45 / 256  # degree", "    if sign:\n        value = value - 511\n\n    angle = value * 45 / 256  # degree")
M("c11-mach", "C11", "decoder/bds/bds60.py", "    mach = common.bin2int(d[24:34]) * 2.048 / 512.0", "    mach = common.bin2int(d[24:34]) * 2.048 / 500.0")
M("c11-wrap", "C11", "decoder/bds/bds50.py", "    if trk < 0:\n        trk = 360 + trk", "    if trk < -1:\n        trk = 360 + trk")
M("c11-alias", "C11", "decoder/commb.py", "from .bds.bds50 import is50, roll50, trk50, gs50, rtrk50, tas50", "from .bds.bds50 import is50, roll50, trk50, rtrk50, tas50\nfrom .bds.bds50 import tas50 as gs50")
M("c11-status", "C11", "decoder/bds/bds44.py", '    if d[34] == "0":\n        return None\n\n    p = common.bin2int(d[35:46])  # hPa', '    if d[35] == "0":\n        return None\n\n    p = common.bin2int(d[35:46])  # hPa')
M("c11-cap17", "C11", "decoder/bds/bds17.py", '        "5F",\n        "60",', '        "60",\n        "5F",')
M("c11-temp45", "C11", "decoder/bds/bds45.py", "    if sign:\n        value = value - 512\n\n    temp = value * 0.25  # celsius", "    if sign:\n        value = value - 512\n\n    temp = value * 0.25 if d[15] == '1' else None  # celsius")
M("c11-vr53-regress", "C11", "decoder/bds/bds53.py", "    value = value - 256 if sign else value", "    value = value - 256 if sign and value != 255 else value")
M("c11-hdg60", "C11", "decoder/bds/bds60.py", "    hdg = value * 90 / 512  # degree\n\n    # convert from [-180, 180] to [0, 360]\n    if hdg < 0:\n        hdg = 360 + hdg\n\n    return hdg\n\n\ndef ias60", "    hdg = value * 90 / 512  # degree\n\n    # convert from [-180, 180] to [0, 360]\n    if hdg <= 0:\n        hdg = 360 + hdg\n\n    return hdg\n\n\ndef ias60")

# ---- C13
M("c13-alt32", "C13", "decoder/bds/bds62.py", "    alt = (alt - 1) * 32\n", "    alt = alt * 32\n")
M("c13-baro", "C13", "decoder/bds/bds62.py", "    baro = common.bin2int(mb[20:29])", "    baro = common.bin2int(mb[21:30])")
M("c13-tcas", "C13", "decoder/bds/bds62.py", "        tcas = True if int(mb[52]) == 1 else False", "        tcas = True if int(mb[51]) == 1 else False")
M("c13-nic16", "C13", "decoder/uncertainty.py", "    16: {1: 3, 0: 2},", "    16: {1: 2, 0: 3},")
M("c13-nacp31", "C13", "decoder/adsb.py", "        NACp = common.bin2int(msgbin[76:80])", "        NACp = common.bin2int(msgbin[75:79])")
M("c13-D8-regress", "C13", "decoder/bds/bds62.py", "hdg = (hdg_sign * 256 + common.bin2int(mb[31:39])) * (180 / 256)", "hdg = (hdg_sign + 1) * common.bin2int(mb[31:39]) * (180 / 256)")
M("c13-D9-regress", "C13", "decoder/bds/bds61.py", "    if subtype == 1 and emergency_state != 0:", "    if subtype == 1 and emergency_state in (1, 2, 3, 4):")
M("c13-D10-regress", "C13", "decoder/bds/bds62.py", "    horizontal_mode = common.bin2int(mb[37:39])", "    horizontal_mode = common.bin2int(mb[36:38])")
M("c13-mono", "C13", "decoder/uncertainty.py", '    6: {"EPU": 556, "VEPU": NA},', '    6: {"EPU": 956, "VEPU": NA},')
M("c13-silsup", "C13", "decoder/adsb.py", "            SIL_SUP = common.bin2int(msgbin[86])", "            SIL_SUP = common.bin2int(msgbin[85])")
M("c13-version", "C13", "decoder/adsb.py", "    version = common.bin2int(msgbin[72:75])", "    version = common.bin2int(msgbin[72:75]) & 3")
M("c13-talt", "C13", "decoder/bds/bds62.py", "    alt = -1000 + common.bin2int(mb[15:25]) * 100", "    alt = -1000 + common.bin2int(mb[15:25]) * 100 if mb[15:25] != '0000000001' else 0")
M("c13-label", "C13", "decoder/bds/bds62.py", '        alt_source = "Holding mode"', '        alt_source = "MCP/FCU"')
M("c13-nicc", "C13", "decoder/adsb.py", "    nic_c = int(msgbin[51])", "    nic_c = int(msgbin[52])")

# ---- C18
M("c18-topbit", "C18", "decoder/uplink.py", "    topbit = 0b1 << (len(msg) * 4 - 25)", "    topbit = 0b1 << (len(msg) * 4 - 24)")
M("c18-e0", "C18", "decoder/uplink.py", "                RRS = ((mbytes[2] & 0x1) << 3) | ((mbytes[3] & 0xE0) >> 5)\n                BDS2 = RRS\n            else:", "                RRS = ((mbytes[2] & 0x1) << 3) | ((mbytes[3] & 0xC0) >> 5)\n                BDS2 = RRS\n            else:")
M("c18-di", "C18", "decoder/uplink.py", "        if (di == 1 or di == 7):\n            # LOS\n            if ((mbytes[3] & 0x40) >> 6) == 1:\n                lockout = True\n        elif di == 3:", "        if (di == 1 or di == 3):\n            # LOS\n            if ((mbytes[3] & 0x40) >> 6) == 1:\n                lockout = True\n        elif di == 7:")
M("c18-si32", "C18", "decoder/uplink.py", '            3: "SI" + str(icField + 32),\n            4: "SI" + str(icField + 48),\n        }\n        IC = ic_switcher.get(codeLabel, "")\n\n    if UF in', '            3: "SI" + str(icField + 31),\n            4: "SI" + str(icField + 48),\n        }\n        IC = ic_switcher.get(codeLabel, "")\n\n    if UF in')
M("c18-fields-los", "C18", "decoder/uplink.py", "        elif di == 1:\n            # II\n            II = (mbytes[2] >> 4) & 0xF\n            IC = \"II\" + str(II)\n            if ((mbytes[3] & 0x40) >> 6) == 1:", "        elif di == 1:\n            # II\n            II = (mbytes[2] >> 4) & 0xF\n            IC = \"II\" + str(II)\n            if ((mbytes[3] & 0x80) >> 7) == 1:")
M("c18-pr", "C18", "decoder/uplink.py", "    if uf(msg) == 11:\n        return ((mbytes[0] & 0x7) << 1) | ((mbytes[1] & 0x80) >> 7)", "    if uf(msg) == 11:\n        return ((mbytes[0] & 0x3) << 1) | ((mbytes[1] & 0x80) >> 7)")
M("c18-uf24", "C18", "decoder/uplink.py", "    return min(common.bin2int(ufbin[0:5]), 24)", "    return min(common.bin2int(ufbin[0:5]), 25)")

# ---- C20
M("c20-lapse", "C20", "extra/aero.py", "    T = np.maximum(288.15 - 0.0065 * H, 216.65)", "    T = np.maximum(288.15 - 0.0056 * H, 216.65)")
M("c20-scale", "C20", "extra/aero.py", "    rho = rhotrop * np.exp(-dhstrat / 6341.552161)", "    rho = rhotrop * np.exp(-dhstrat / 6431.5)")
M("c20-35", "C20", "extra/aero.py", "    qdyn = p * ((1 + rho * Vtas * Vtas / (7 * p)) ** 3.5 - 1.0)", "    qdyn = p * ((1 + rho * Vtas * Vtas / (7 * p)) ** 3 - 1.0)")
M("c20-27", "C20", "extra/aero.py", "    Vtas = np.sqrt(7 * p / rho * ((1 + qdyn / p) ** (2 / 7.0) - 1.0))", "    Vtas = np.sqrt(7 * p / rho * ((1 + qdyn / p) ** (2 / 7.5) - 1.0))")
M("c20-mod", "C20", "extra/aero.py", "    bearing = (initial_bearing + 360) % 360", "    bearing = initial_bearing")
M("c20-D17-regress", "C20", "extra/aero.py", "    cos = np.where(cos < -1, -1, cos)\n", "")
M("c20-eas", "C20", "extra/aero.py", "    Veas = Vtas * np.sqrt(rho / rho0)", "    Veas = Vtas * np.sqrt(rho / 1.2)")
M("c20-trop", "C20", "extra/aero.py", "    dhstrat = np.maximum(0.0, H - 11000.0)", "    dhstrat = np.maximum(0.0, H - 11100.0)")
M("c20-array", "C20", "extra/aero.py", "def vsound(H):\n    \"\"\"Speed of sound\"\"\"\n    T = temperature(H)", "def vsound(H):\n    \"\"\"Speed of sound\"\"\"\n    T = temperature(np.max(H))")

# ---- C16
M("c16-start-equiv", "C16", "extra/tcpclient.py", "                start = i\n", "                start = i + 1\n", all=True, equivalent=True)
M("c16-pair", "C16", "extra/tcpclient.py", "                msg.append(0x1A)\n                i += 1\n", "                msg.append(0x1A)\n", all=True)
M("c16-undecided", "C16", "extra/tcpclient.py", "            elif i == len(self.buffer) - 1:\n                # a trailing <esc> is either a divider or half of an escaped\n                # 0x1a, decide in the next reading cycle\n                break\n", "            elif i == len(self.buffer) - 1:\n                start = i\n                break\n", all=True)
M("c16-sky", "C16", "extra/tcpclient.py", "                self.buffer = self.buffer[SS_MSGLENGTH:]", "                self.buffer = self.buffer[SS_MSGLENGTH + 1 :]")
M("c16-net", "C16", "streamer/source.py", "class NetSource(TcpClient):\n    def __init__(self, host, port, rawtype):\n        super(NetSource, self).__init__(host, port, rawtype)\n        self.reset_local_buffer()\n\n    def reset_local_buffer(self):\n        self.local_buffer_adsb_msg = []\n        self.local_buffer_adsb_ts = []\n        self.local_buffer_commb_msg = []\n        self.local_buffer_commb_ts = []\n\n    def handle_messages(self, messages):\n\n        if self.stop_flag.value is True:\n            self.stop()\n            return\n\n        for msg, t in messages:\n            if len(msg) < 28:  # only process long messages\n                continue\n\n            df = pms.df(msg)\n\n            if df == 17 or df == 18:\n                self.local_buffer_adsb_msg.append(msg)\n                self.local_buffer_adsb_ts.append(t)\n            elif df == 20 or df == 21:\n                self.local_buffer_commb_msg.append(msg)\n                self.local_buffer_commb_ts.append(t)\n            else:\n                continue\n\n        if len(self.local_buffer_adsb_msg) > 1:", "class NetSource(TcpClient):\n    def __init__(self, host, port, rawtype):\n        super(NetSource, self).__init__(host, port, rawtype)\n        self.reset_local_buffer()\n\n    def reset_local_buffer(self):\n        self.local_buffer_adsb_msg = []\n        self.local_buffer_adsb_ts = []\n        self.local_buffer_commb_msg = []\n        self.local_buffer_commb_ts = []\n\n    def handle_messages(self, messages):\n\n        if self.stop_flag.value is True:\n            self.stop()\n            return\n\n        for msg, t in messages:\n            if len(msg) < 28:  # only process long messages\n                continue\n\n            df = pms.df(msg)\n\n            if df == 17 or df == 18:\n                self.local_buffer_adsb_msg.append(msg)\n                self.local_buffer_adsb_ts.append(t)\n            elif df == 20 or df == 21:\n                self.local_buffer_commb_msg.append(msg)\n                self.local_buffer_commb_ts.append(t)\n            else:\n                continue\n\n        if len(self.local_buffer_adsb_msg) > 2:")
M("c16-D14-regress", "C16", "extra/tcpclient.py", "        msg_stop = False\n        for b in self.buffer:", "        msg_stop = False\n        self.current_msg = \"\"\n        for b in self.buffer:")
M("c16-rawlower", "C16", "extra/tcpclient.py", "(48 <= b <= 57 or 65 <= b <= 70 or 97 <= b <= 102)", "(48 <= b <= 57 or 65 <= b <= 70 or 97 <= b <= 101)")
M("c16-net-df21", "C16", "streamer/source.py", "            elif df == 20 or df == 21:\n                self.local_buffer_commb_msg.append(msg)\n                self.local_buffer_commb_ts.append(t)\n            else:\n                continue\n\n        if len(self.local_buffer_adsb_msg) > 1:\n            self.raw_pipe_in.send(\n                {\n                    \"adsb_ts\": self.local_buffer_adsb_ts,\n                    \"adsb_msg\": self.local_buffer_adsb_msg,\n                    \"commb_ts\": self.local_buffer_commb_ts,\n                    \"commb_msg\": self.local_buffer_commb_msg,\n                }\n            )\n            self.reset_local_buffer()\n\n\nclass RtlSdrSource", "            elif df == 20:\n                self.local_buffer_commb_msg.append(msg)\n                self.local_buffer_commb_ts.append(t)\n            else:\n                continue\n\n        if len(self.local_buffer_adsb_msg) > 1:\n            self.raw_pipe_in.send(\n                {\n                    \"adsb_ts\": self.local_buffer_adsb_ts,\n                    \"adsb_msg\": self.local_buffer_adsb_msg,\n                    \"commb_ts\": self.local_buffer_commb_ts,\n                    \"commb_msg\": self.local_buffer_commb_msg,\n                }\n            )\n            self.reset_local_buffer()\n\n\nclass RtlSdrSource")
M("c16-long21", "C16", "extra/tcpclient.py", "                msg = \"\".join(\"%02X\" % i for i in mm[8:22])\n            else:\n                # Other message tupe\n                continue\n\n            if len(msg) not in [14, 28]:\n                continue\n\n            df = pms.df(msg)\n\n            # skip", "                msg = \"\".join(\"%02X\" % i for i in mm[8:22]) if mm[21] != 0x1A else \"\"\n            else:\n                # Other message tupe\n                continue\n\n            if len(msg) not in [14, 28]:\n                continue\n\n            df = pms.df(msg)\n\n            # skip")

# ---- C19
M("c19-start", "C19", "extra/rtlreader.py", "            frame_start = i + pbits * 2", "            frame_start = i + pbits * 2 - 1")
M("c19-nocrc", "C19", "extra/rtlreader.py", "            if pms.crc(msg) == 0:\n                return True", "            return True")
M("c19-th", "C19", "extra/rtlreader.py", "th_amp_diff = 0.8  #", "th_amp_diff = 0.35  #")
M("c19-D16-regress", "C19", "extra/rtlreader.py", "                msgbin = msgbin[: fbits if msgbin and msgbin[0] else fbits // 2]\n", "")
M("c19-snr", "C19", "extra/rtlreader.py", "        min_sig_amp = 3.162 * self.noise_floor  # 10 dB SNR", "        min_sig_amp = 31.62 * self.noise_floor  # 10 dB SNR")
M("c19-df11", "C19", "extra/rtlreader.py", "        elif df in [4, 5, 11] and msglen == 14:\n            return True\n        return False", "        elif df in [4, 5] and msglen == 14:\n            return True\n        return False")
M("c19-jump", "C19", "extra/rtlreader.py", "                i = frame_start + j\n", "                i = frame_start + j + 300\n")
M("c19-bit", "C19", "extra/rtlreader.py", "                    elif p2[0] >= p2[1]:\n                        c = 1", "                    elif p2[0] >= p2[1] * 1.3:\n                        c = 1")

# ---- C17
M("c17-180", "C17", "streamer/decode.py", '(t - self.acs[icao]["tpos"] < 180)', '(t - self.acs[icao]["tpos"] < 1800)')
M("c17-10", "C17", "streamer/decode.py", '(abs(self.acs[icao]["t0"] - self.acs[icao]["t1"]) < 10)', '(abs(self.acs[icao]["t0"] - self.acs[icao]["t1"]) < 100)')
M("c17-except", "C17", "streamer/decode.py", "                    except:\n                        # mix of surface and airborne position message", "                    except ValueError:\n                        # mix of surface and airborne position message")
M("c17-timeout", "C17", "streamer/decode.py", "        self.cache_timeout = 60  # seconds", "        self.cache_timeout = 45  # seconds")
M("c17-gate", "C17", "streamer/decode.py", "            if icao not in self.acs:\n                continue\n\n            self.acs[icao][\"icao\"] = icao\n            self.acs[icao][\"t\"] = t\n            # Comm-B", "            if icao not in self.acs:\n                self.acs[icao] = {\"live\": int(t)}\n\n            self.acs[icao][\"icao\"] = icao\n            self.acs[icao][\"t\"] = t\n            # Comm-B")
M("c17-D20-regress", "C17", "streamer/decode.py", '            self.acs[icao]["live"] = max(self.acs[icao]["live"], int(t))', '            self.acs[icao]["live"] = int(t)')
M("c17-D3-regress", "C17", "py_common.py", "        addr = msg[2:8].upper()", "        addr = msg[2:8]")
M("c17-ref-latlon", "C17", "streamer/decode.py", '                    rlat = self.acs[icao]["lat"]\n                    rlon = self.acs[icao]["lon"]', '                    rlat = self.lat0\n                    rlon = self.lon0')
M("c17-oe", "C17", "streamer/decode.py", '                self.acs[icao]["t" + str(oe)] = t\n', '                self.acs[icao]["t" + str(oe)] = int(t)\n')
M("c17-evict-never", "C17", "streamer/decode.py", '            if self.t - self.acs[icao]["live"] > self.cache_timeout:', '            if self.t - self.acs[icao]["live"] > self.cache_timeout and self.acs[icao]["call"] is None:')

# ---- C15
M("c15-pyx-gray", "C15", "c_common.pyx", "            graybytes[6] = mbin[9]\n            graybytes[0] = mbin[10]\n            graybytes[7] = mbin[11]", "            graybytes[7] = mbin[9]\n            graybytes[0] = mbin[10]\n            graybytes[6] = mbin[11]")
M("c15-pyx-df", "C15", "c_common.pyx", "    if df > 24:\n        return 24", "    if df > 22:\n        return 24")
M("c15-pyx-sentinel-equiv", "C15", "c_common.pyx", "    if n100 in [0, 5, 6]:\n        return -1", "    if n100 in [0, 5, 6]:\n        return -999999", equivalent=True)
M("c15-py-offset", "C15", "py_common.py", "            alt = bin2int(vbin) * 25 - 1000", "            alt = bin2int(vbin) * 25 - 975")
M("c15-D2-regress", "C15", "decoder/bds/bds05.py", "        if alt != -999999 and alt != -1:", "        if alt != -999999:")
M("c15-pyx-crc", "C15", "c_common.pyx", "    for ibyte in range(len_mbytes - 3):", "    for ibyte in range(len_mbytes - 3 - (len_mbytes == 7)):")
M("c15-pyx-char", "C15", "c_common.pyx", "    if 97 <= binstr <= 102: # a to f\n        return binstr - 97 + 10", "    if 97 <= binstr <= 101: # a to f\n        return binstr - 97 + 10")
M("c15-pyx-typed", "C15", "c_common.pyx", "cpdef long hex2int(str hexstr):", "cpdef int hex2int(str hexstr):")
M("c15-pyx-assigned", "C15", "c_common.pyx", "    if 0x680000 < icaoint < 0x6F0000:", "    if 0x680000 < icaoint < 0x6FFFFF:")
M("c15-py-squawk", "C15", "py_common.py", "    if len(binstr) != 13 or not set(binstr).issubset(set(\"01\")):\n        raise RuntimeError(\"Input must be 13 bits binary string\")\n\n    C1 = binstr[0]\n    A1 = binstr[1]\n    C2 = binstr[2]\n    A2 = binstr[3]\n    C4 = binstr[4]\n    A4 = binstr[5]\n    # X", "    if len(binstr) != 13 or not set(binstr).issubset(set(\"01\")) or binstr == '1' * 13:\n        raise RuntimeError(\"Input must be 13 bits binary string\")\n\n    C1 = binstr[0]\n    A1 = binstr[1]\n    C2 = binstr[2]\n    A2 = binstr[3]\n    C4 = binstr[4]\n    A4 = binstr[5]\n    # X")

# ---- C12
M("c12-status", "C12", "decoder/bds/bds50.py", "    if common.wrongstatus(d, 24, 25, 34):\n        return False\n", "")
M("c12-gs600", "C12", "decoder/bds/bds50.py", "    if gs is not None and gs > 600:", "    if gs is not None and gs >= 600:")
M("c12-order", "C12", "decoder/bds/__init__.py", '            ["BDS10", "BDS17", "BDS20", "BDS30", "BDS40", "BDS50", "BDS60"]', '            ["BDS10", "BDS17", "BDS20", "BDS30", "BDS50", "BDS40", "BDS60"]')
M("c12-is10", "C12", "decoder/bds/bds10.py", "    if common.bin2int(d[9:14]) != 0:", "    if common.bin2int(d[10:14]) != 0:")
M("c12-argmax", "C12", "decoder/bds/__init__.py", "        BDS = allbds[np.nanargmin(dist)]", "        BDS = allbds[np.nanargmax(dist)]")
M("c12-ias20", "C12", "decoder/bds/bds60.py", "            if abs(ias - ias_) > 20:\n                return False", "            if abs(ias - ias_) > 2:\n                return False")
M("c12-src", "C12", "decoder/bds/bds44.py", "    if common.bin2int(d[0:4]) > 4:", "    if common.bin2int(d[0:4]) > 5:")
M("c12-tcmap", "C12", "decoder/bds/__init__.py", '        if 20 <= tc <= 22:\n            return "BDS05"', '        if 20 <= tc <= 22:\n            return "BDS06"')
M("c12-is20", "C12", "decoder/bds/bds20.py", '    if "#" in cs20(msg):\n        return False\n', "")
M("c12-rsv45", "C12", "decoder/bds/bds45.py", "    if common.bin2int(d[51:56]) != 0:\n        return False\n", "")
M("c12-mach1", "C12", "decoder/bds/bds60.py", "    if mach is not None and mach > 1:", "    if mach is not None and mach >= 1:")
M("c12-roll", "C12", "decoder/bds/bds50.py", "    if (roll is not None) and abs(roll) > 50:", "    if (roll is not None) and abs(roll) > 45:")
M("c12-empty", "C12", "decoder/bds/__init__.py", '    if common.allzeros(msg):\n        return "EMPTY"', '    if common.allzeros(msg) and df != 16:\n        return "EMPTY"')
M("c12-both50", "C12", "decoder/bds/__init__.py", "        if abs(i60 - ias_) > 20:\n            return \"BDS50\"", "        if abs(i60 - ias_) > 20:\n            return \"BDS60\"")
M("c12-temp44", "C12", "decoder/bds/bds44.py", "    if min(temp, temp2) > 60 or max(temp, temp2) < -80:", "    if min(temp, temp2) > 60 or max(temp, temp2) < -30:")
M("c12-mrar", "C12", "decoder/bds/__init__.py", "        mask = [IS10, IS17, IS20, IS30, IS40, IS44, IS45, IS50, IS60]", "        mask = [IS10, IS17, IS20, IS30, IS40, IS45, IS44, IS50, IS60]")

# ---- C14
M("c14-guard23", "C14", "decoder/bds/bds05.py", '    if tc is None or tc < 9 or tc == 19 or tc > 22:', '    if tc is None or tc < 9 or tc == 19 or tc > 23:')
M("c14-tc29", "C14", "decoder/bds/bds62.py", '    if common.typecode(msg) != 29:\n        raise RuntimeError(\n            "%s: Not a target state and status message, expecting TC=29" % msg\n        )\n\n    mb = common.hex2bin(msg)[32:]\n\n    subtype = common.bin2int(mb[5:7])\n\n    if subtype == 1:\n        raise RuntimeError(\n            "%s: ADS-B version 2 target state and status message does not"\n            " contain vertical mode, use vnav mode instead" % msg\n        )', '    mb = common.hex2bin(msg)[32:]\n\n    subtype = common.bin2int(mb[5:7])\n\n    if subtype == 1:\n        raise RuntimeError(\n            "%s: ADS-B version 2 target state and status message does not"\n            " contain vertical mode, use vnav mode instead" % msg\n        )')
M("c14-tell-label", "C14", "decoder/__init__.py", '                    6: "Downed aircraft",\n', '')
M("c14-idcode", "C14", "py_common.py", "    if df(msg) not in [5, 21]:", "    if df(msg) not in [5]:")
M("c14-D12-regress", "C14", "decoder/__init__.py", '                    "IAS": "Indicated airspeed",\n', '')
M("c14-D11-regress", "C14", "decoder/adsb.py", "    NIC = uncertainty.TC_NICv2_lookup[tc]", "    NIC = uncertainty.TC_NICv2_lookup[tc if tc != 22 else 23]")
M("c14-route", "C14", "decoder/adsb.py", "    elif tc == 19:\n        return airborne_velocity(msg, source)", "    elif tc == 19:\n        return airborne_velocity(msg)")
M("c14-pairroute", "C14", "decoder/adsb.py", "    elif 9 <= tc0 <= 18 and 9 <= tc1 <= 18:", "    elif 9 <= tc0 <= 18 and 9 <= tc1 <= 22:")
M("c14-shape", "C14", "decoder/bds/bds62.py", '    if alt == 0:\n        return None, "N/A"', '    if alt == 0:\n        return None')
M("c14-commb", "C14", "decoder/bds/bds17.py", '    capacity = ["BDS" + allbds[i] for i in idx]', '    capacity = ["BDS" + allbds[i + (i == 23)] for i in idx]')
M("c14-uplink", "C14", "decoder/uplink.py", '        IC = ic_switcher.get(codeLabel, "")\n\n    if UF in', '        IC = ic_switcher[codeLabel]\n\n    if UF in')
M("c14-nacv", "C14", "decoder/adsb.py", "    try:\n        HFOMr = uncertainty.NACv[NACv][\"HFOMr\"]\n        VFOMr = uncertainty.NACv[NACv][\"VFOMr\"]\n    except KeyError:", "    try:\n        HFOMr = uncertainty.NACv[NACv][\"HFOMr\"]\n        VFOMr = uncertainty.NACv[NACv][\"VFOMr\"]\n    except IndexError:")
M("c15-is60-regress", "C15", "decoder/bds/bds60.py", "        if alt is not None and alt != -999999 and alt != -1:", "        if alt is not None:")
M("c15-tell-regress", "C15", "decoder/__init__.py", '        _print("Altitude", None if alt in (-999999, -1) else alt, "feet")', '        _print("Altitude", alt, "feet")')
M("c16-rtlsource", "C16", "streamer/source.py", "            elif df == 20 or df == 21:", "            elif df == 20:", nth=1)

# ---- hidden state between calls (found through the generic re-evaluation of earlier cases, or the prelude / repeated calls)
M("state-gs50-cache", "C11", "decoder/bds/bds50.py", "def gs50(msg: str) -> Optional[float]:", "_GS = {}\n\n\ndef gs50(msg: str) -> Optional[float]:\n    if msg[:10] in _GS:\n        return _GS[msg[:10]]\n    _GS[msg[:10]] = _gs50(msg)\n    return _GS[msg[:10]]\n\n\ndef _gs50(msg: str) -> Optional[float]:")
M("state-callsign-last", "C10", "decoder/bds/bds08.py", "    cs = cs.replace(\"#\", \"\")\n    return cs", "    cs = cs.replace(\"#\", \"\")\n    global _LAST\n    try:\n        prev = _LAST\n    except NameError:\n        prev = None\n    _LAST = (msg[:8], cs)\n    if prev and prev[0] == msg[:8]:\n        return prev[1]\n    return cs")

# ---- volume legs: state that depends on how much the process has decoded (a memo table with a cap, cleared between store and read)
_H2B_OLD = "    num_of_bits = len(hexstr) * 4\n    binstr = bin(int(hexstr, 16))[2:].zfill(int(num_of_bits))\n    return binstr\n"
def _h2b_new(cap):
    return ("    if hexstr not in _H2B:\n        num_of_bits = len(hexstr) * 4\n        _H2B[hexstr] = bin(int(hexstr, 16))[2:].zfill(int(num_of_bits))\n"
            "        if len(_H2B) > %d:\n            _H2B.clear()\n    return _H2B[hexstr]\n\n\n_H2B: dict = {}\n" % cap)
for _p, _cap in (("C01", 1 << 17), ("C07", 1 << 20), ("C08", 1 << 20), ("C10", 1 << 18), ("C11", 1 << 20)):
    M("%s-h2b-cap" % _p.lower(), _p, "py_common.py", _H2B_OLD, _h2b_new(_cap))
M("c06-nl-count", "C06", "py_common.py", "    nz = 15\n", "    _n = cprNL.__dict__.setdefault('seen', [])\n    _n.append(1)\n    if len(_n) > 100000 and lat > 10:\n        lat = lat + 1.0\n    nz = 15\n")
M("c02-parity-memo-cap", "C02", "py_common.py", "        c0 = crc(msg, encode=True)\n        c1 = int(msg[-6:], 16)\n",
  "        _m = icao.__dict__.setdefault('memo', {})\n        if msg[:-6] not in _m:\n            if len(_m) >= 50000:\n                _m.clear()\n                _m[msg[:-6]] = 0\n"
  "            else:\n                _m[msg[:-6]] = crc(msg, encode=True)\n        c0 = _m[msg[:-6]]\n        c1 = int(msg[-6:], 16)\n")

# ---- first-use legs: a module-level table built in place on first use, "ready" tested as "non-empty"
M("c10-lazy-chars", "C10", "decoder/bds/bds08.py", '    chars = "#ABCDEFGHIJKLMNOPQRSTUVWXYZ#####_###############0123456789######"\n',
  '    chars = callsign.__dict__.setdefault("tbl", [])\n    if not chars:\n        for ch in "#ABCDEFGHIJKLMNOPQRSTUVWXYZ#####_###############0123456789######":\n            chars.append(ch)\n            chars[0:0] = []\n    chars = chars + ["#"] * (64 - len(chars))\n')
M("c01-lazy-gen", "C01", "py_common.py", '    G = [int("11111111", 2), int("11111010", 2), int("00000100", 2), int("10000000", 2)]\n',
  '    G = crc.__dict__.setdefault("gen", [])\n    if not G:\n        for g in ("11111111", "11111010", "00000100", "10000000"):\n            G.append(sum(int(c) << (7 - i) for i, c in enumerate(g)))\n    G = G + [0] * (4 - len(G))\n')

# ---- added with round 9 of the seeded changes (oracles that had asserted less than the property)
M("c06-87-gives-1", "C06", "py_common.py", "    elif np.isclose(abs(lat), 87):\n        return 2", "    elif np.isclose(abs(lat), 87):\n        return 1 if abs(lat) == 87 else 2")
M("c13-hdg-360", "C13", "decoder/bds/bds62.py", "hdg = (hdg_sign * 256 + common.bin2int(mb[31:39])) * (180 / 256)", "hdg = (hdg_sign * 256 + common.bin2int(mb[31:39])) * (180 / 256) or 360.0")
