"""Hand-written mutants (each passes the repository's own 36 tests unless noted)."""
MUTANTS = []
def M(id, prop, file, old, new, equivalent=False):
    MUTANTS.append(dict(id=id, prop=prop, file=file, old=old, new=new, equivalent=equivalent))

# ---- C01
M("c01-shift7", "C01", "py_common.py", "0xFF & ((G[0] << 8 - ibit) | (G[1] >> ibit))", "0xFF & ((G[0] << 8 - ibit) | (G[1] >> (ibit + (ibit == 7))))")
M("c01-range", "C01", "py_common.py", "for ibyte in range(len(mbytes) - 3):", "for ibyte in range(len(mbytes) - 3 - (len(mbytes) == 7 and mbytes[0] == 0xA5)):")
M("c01-enc5", "C01", "py_common.py", 'msg = msg[:-6] + "000000"', 'msg = msg[:-5] + "00000"')
M("c01-legacy", "C01", "py_common.py", "msgnpbin[-24:] = [0] * 24", "msgnpbin[-23:] = [0] * 23")

# ---- C06
M("c06-nz", "C06", "py_common.py", "    nz = 15\n", "    nz = 14\n")
M("c06-gt86", "C06", "py_common.py", "    elif lat > 87 or lat < -87:", "    elif lat > 87 or lat < -87.5:")
M("c06-round", "C06", "py_common.py", "    NL = floor(nl)\n    return NL", "    NL = int(round(nl))\n    return NL")
M("c06-pyx-neg", "C06", "c_common.pyx", "    elif lat > 87 or lat < -87:", "    elif lat > 87 or lat < -88:")
M("c06-pyx-fabs", "C06", "c_common.pyx", "cdef double b = cos(pi / 180 * fabs(lat)) ** 2", "cdef double b = cos(pi / 180 * fabs(lat) * 1.0000001) ** 2")
M("c06-pyx-tol-equiv", "C06", "c_common.pyx", "1e-08 + 1e-05 * 87", "1e-08 + 1e-04 * 87", equivalent=True)
