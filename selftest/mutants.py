"""Hand-written mutants (each passes the repository's own 36 tests unless noted)."""
MUTANTS = []
def M(id, prop, file, old, new, equivalent=False):
    MUTANTS.append(dict(id=id, prop=prop, file=file, old=old, new=new, equivalent=equivalent))

# ---- C01
M("c01-shift7", "C01", "py_common.py", "0xFF & ((G[0] << 8 - ibit) | (G[1] >> ibit))", "0xFF & ((G[0] << 8 - ibit) | (G[1] >> (ibit + (ibit == 7))))")
M("c01-range", "C01", "py_common.py", "for ibyte in range(len(mbytes) - 3):", "for ibyte in range(len(mbytes) - 3 - (len(mbytes) == 7 and mbytes[0] == 0xA5)):")
M("c01-enc5", "C01", "py_common.py", 'msg = msg[:-6] + "000000"', 'msg = msg[:-5] + "00000"')
M("c01-legacy", "C01", "py_common.py", "msgnpbin[-24:] = [0] * 24", "msgnpbin[-23:] = [0] * 23")

# ---- C06
M("c06-nz", "C06", "py_common.py", "    nz = 15\n", "    nz = 14\n")
M("c06-gt86", "C06", "py_common.py", "    elif lat > 87 or lat < -87:", "    elif lat > 87 or lat < -87.5:")
M("c06-round", "C06", "py_common.py", "    NL = floor(nl)\n    return NL", "    NL = int(round(nl))\n    return NL")
M("c06-pyx-neg", "C06", "c_common.pyx", "    elif lat > 87 or lat < -87:", "    elif lat > 87 or lat < -88:")
M("c06-pyx-fabs", "C06", "c_common.pyx", "cdef double b = cos(pi / 180 * fabs(lat)) ** 2", "cdef double b = cos(pi / 180 * fabs(lat) * 1.0000001) ** 2")
M("c06-pyx-tol-equiv", "C06", "c_common.pyx", "1e-08 + 1e-05 * 87", "1e-08 + 1e-04 * 87", equivalent=True)

# ---- C03
M("c03-mod60", "C03", "decoder/bds/bds05.py", "lat_odd = float(air_d_lat_odd * (j % 59 + cprlat_odd))", "lat_odd = float(air_d_lat_odd * (j % 60 + cprlat_odd))")
M("c03-gt270", "C03", "decoder/bds/bds05.py", "    if lat_even >= 270:", "    if lat_even > 270:")
M("c03-ni", "C03", "decoder/bds/bds05.py", "        ni = max(common.cprNL(lat) - 1, 1)\n        m = common.floor(cprlon_even * (nl - 1) - cprlon_odd * nl + 0.5)\n        lon = (360 / ni) * (m % ni + cprlon_odd)", "        ni = max(common.cprNL(lat) - 1, 2)\n        m = common.floor(cprlon_even * (nl - 1) - cprlon_odd * nl + 0.5)\n        lon = (360 / ni) * (m % ni + cprlon_odd)")
M("c03-lon180-equiv", "C03", "decoder/bds/bds05.py", "    if lon > 180:\n        lon = lon - 360\n\n    return lat, lon\n\n\ndef airborne_position_with_ref", "    if lon >= 180:\n        lon = lon - 360\n\n    return lat, lon\n\n\ndef airborne_position_with_ref", equivalent=True)
M("c03-noswap", "C03", "decoder/bds/bds05.py", "        mb0, mb1 = mb1, mb0\n        t0, t1 = t1, t0", "        mb0, mb1 = mb1, mb0")
M("c03-nogate", "C03", "decoder/bds/bds05.py", "    if common.cprNL(lat_even) != common.cprNL(lat_odd):\n        return None\n\n    # compute ni, longitude index m, and longitude\n    # (people pass int+int or datetime+datetime)\n    if t0 > t1:  # type: ignore\n        lat = lat_even\n        nl = common.cprNL(lat)", "    if False:\n        return None\n\n    # compute ni, longitude index m, and longitude\n    # (people pass int+int or datetime+datetime)\n    if t0 > t1:  # type: ignore\n        lat = lat_even\n        nl = common.cprNL(lat)")
M("c03-route", "C03", "decoder/adsb.py", "    elif 20 <= tc0 <= 22 and 20 <= tc1 <= 22:", "    elif 20 <= tc0 <= 21 and 20 <= tc1 <= 22:")

# ---- C04
M("c04-half", "C04", "decoder/bds/bds05.py", "    j = common.floor(0.5 + lat_ref / d_lat - cprlat)", "    j = common.floor(0.4 + lat_ref / d_lat - cprlat)")
M("c04-dlat", "C04", "decoder/bds/bds06.py", "    d_lat = 90 / 59 if i else 90 / 60", "    d_lat = 90 / 60 if i else 90 / 59")
M("c04-ni2", "C04", "decoder/bds/bds05.py", "    if ni > 0:\n        d_lon = 360 / ni", "    if ni > 2:\n        d_lon = 360 / ni")
M("c04-surf-fallback", "C04", "decoder/bds/bds06.py", "    else:\n        d_lon = 90\n", "    else:\n        d_lon = 360\n")
M("c04-route", "C04", "decoder/adsb.py", "    if 5 <= tc <= 8:\n        return surface_position_with_ref(msg, lat_ref, lon_ref)", "    if 5 <= tc <= 7:\n        return surface_position_with_ref(msg, lat_ref, lon_ref)")
M("c04-mfloor", "C04", "decoder/bds/bds06.py", "    m = common.floor(0.5 + lon_ref / d_lon - cprlon)", "    m = int(0.5 + lon_ref / d_lon - cprlon)")

# ---- C05
M("c05-no270", "C05", "decoder/bds/bds06.py", "    lons = [lon, lon + 90, lon + 180, lon + 270]", "    lons = [lon, lon + 90, lon + 180]")
M("c05-360ni", "C05", "decoder/bds/bds06.py", "        lon = (90 / ni) * (m % ni + cprlon_even)", "        lon = (360 / ni) * (m % ni + cprlon_even)")
M("c05-D4-regress", "C05", "decoder/bds/bds06.py", "    if abs(lat_ref - lat_odd_n) <= abs(lat_ref - lat_odd_s):", "    if lat_ref > 0:")
M("c05-D5-regress", "C05", "decoder/bds/bds06.py", "    dls = [abs((lon_ref - lon + 180) % 360 - 180) for lon in lons]", "    dls = [abs(lon_ref - lon) for lon in lons]")
M("c05-noref", "C05", "decoder/adsb.py", "        if lat_ref is None or lon_ref is None:", "        if lat_ref is None and lon_ref is None:")
M("c05-timeorder", "C05", "decoder/bds/bds06.py", "    if t0 > t1:  # type: ignore\n        lat = lat_even\n        nl = common.cprNL(lat_even)", "    if t0 >= t1:  # type: ignore\n        lat = lat_even\n        nl = common.cprNL(lat_even)", equivalent=True)
