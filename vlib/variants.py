"""Input *dimensions* that are easy to leave constant (found by the adversarial seeding rounds): call history on the same string,
argument types, access paths, aliasing of returned containers, concurrent callers."""
import sys
import threading

import numpy as np


class StrSub(str):
    """a user subclass of str (numpy.str_ is another one)"""


def prelude(pms, msg):
    """What a receiver typically does with a frame before decoding a field: the helpers are called on the *same string* first.
    A decoder must not depend on that history (caches keyed by the message, shared work buffers)."""
    for fn in (pms.common.df, pms.common.crc, pms.common.icao, pms.common.typecode, pms.common.hex2bin):
        try:
            fn(msg)
        except Exception:
            pass
    try:
        pms.common.crc(msg, encode=True)
    except Exception:
        pass
    # ... and has met damaged input before: the same digits cut short, too long, with a foreign character, in another format.  Whatever a
    # function stores before it validates must not leak into the answer for the intact string.
    first = msg[:1]
    for bad in (msg[:-1], msg + "0", msg[:-1] + "Z", msg[:13], ("0" if first != "0" else "8") + msg[1:], ""):
        for fn in (pms.common.df, pms.common.crc, pms.common.icao, pms.common.typecode, pms.common.altcode, pms.common.idcode, pms.common.hex2bin):
            try:
                fn(bad)
            except Exception:
                pass
    crosstalk(pms, msg)


def damaged_calls(fn, msg, *args):
    """the judged decoder itself has met this frame before in damaged form: cut short by 1-5 digits, one digit too long, with a foreign last
    character.  Whatever it raised or returned then, the intact frame must decode as if nothing had happened."""
    for bad in (msg[:-1], msg[:-2], msg[:-3], msg[:-4], msg[:-5], msg + "0", msg[:-1] + "Z"):
        try:
            fn(bad, *args)
        except Exception:
            pass


def _h(msg):
    x = 1469598103934665603
    for ch in msg:
        x = ((x ^ ord(ch)) * 1099511628211) & 0xFFFFFFFFFFFFFFFF
    return x


def crosstalk(pms, msg):
    """Other messages of the *same aircraft* (same address field, other type codes: identification, position of both parities, surface
    position, velocity, target state, operational status of version 1 or 2) decoded with the usual functions before the judged call.
    A decoder must not depend on what else has been decoded for that address (per-aircraft memory, caches keyed by the address)."""
    if len(msg) != 28:
        return
    try:
        first = int(msg[:2], 16)
    except ValueError:
        return
    if first >> 3 not in (17, 18):
        return
    A = pms.adsb
    x = _h(msg)
    # look-alikes: the same digits under another downlink format that shares the leading hex digit (DF16 with DF17, DF19 with DF18)
    alike = ("%X%X" % ((8, first & 7) if first >> 3 == 17 else (9, 8 | (first & 7)))) + msg[2:]
    if msg[2:] != msg[2:].upper():
        alike = alike.lower()
    for fn in (pms.common.typecode, pms.common.df, pms.common.icao, A.typecode):
        try:
            fn(alike)
        except Exception:
            pass
    head = msg[:8]
    low = (x >> 8) & ((1 << 51) - 1)
    ver = 1 + (x & 1)
    plan = (
        (31, low & ~(7 << 13) | (ver << 13), (A.version, A.nic_s, A.nic_a_c, A.nac_p, A.sil)),
        (19, low & ~(7 << 48) | (1 << 48), (A.velocity, A.speed_heading, A.nac_v)),
        (4, low, (A.callsign, A.category)),
        (11, low & ~(1 << 34), (A.altitude, A.nic_b, A.oe_flag)),
        (11, low | (1 << 34), (A.altitude, A.oe_flag)),
        (7, low, (A.surface_velocity,)),
        (29, low & ~(3 << 49) | (1 << 49), (A.selected_altitude, A.baro_pressure_setting, A.autopilot)),
        (28, low & ~(7 << 48) | (1 << 48), (A.emergency_state, A.emergency_squawk)),
    )
    frames_ = []
    for tc, rest, fns in plan:
        m = "%s%014X%06X" % (head, (tc << 51) | rest, (x >> 20) & 0xFFFFFF)
        frames_.append(m)
        for fn in fns:
            try:
                fn(m)
            except Exception:
                pass
        try:
            pms.common.typecode(m), pms.common.icao(m), pms.bds.infer(m)
        except Exception:
            pass
    try:
        A.position(frames_[3], frames_[4], 10, 11, 52.0, 4.0)
        A.position_with_ref(frames_[3], 52.0, 4.0)
        A.nic_v1(frames_[3], 1), A.nic_v2(frames_[3], 1, 1)
    except Exception:
        pass

    # an equal-parity sibling: the same address, a different ME, and - because the difference is a multiple of the CRC generator - the very
    # same 24 parity digits.  Decoded with the functions of its own type code, before the judged frame.
    try:
        sib = "%028X" % (int(msg, 16) ^ (0x1FFF409 << (24 + (x >> 3) % 27)))
        if msg != msg.upper():
            sib = sib.lower()
        tcs = int(sib[8:10], 16) >> 3
        by_tc = {29: ("selected_altitude", "selected_heading", "baro_pressure_setting", "autopilot", "vnav_mode", "altitude_hold_mode", "approach_mode", "lnav_mode",
                      "tcas_operational", "target_altitude", "vertical_mode", "horizontal_mode", "target_angle", "tcas_ra", "emergency_status", "nac_p", "sil"),
                 28: ("emergency_state", "emergency_squawk", "is_emergency"), 31: ("version", "nic_s", "nic_a_c", "nac_p", "sil"),
                 19: ("velocity", "speed_heading", "nac_v")}
        names = by_tc.get(tcs, ("callsign", "category") if 1 <= tcs <= 4 else ("altitude", "oe_flag", "nuc_p") if 5 <= tcs <= 22 else ())
        for nm in names + ("typecode", "icao"):
            try:
                getattr(A, nm)(sib)
            except Exception:
                pass
    except Exception:
        pass


class LoudStr(str):
    """a str subclass whose str() is something else than its text - what `class Frame(str, enum.Enum)` members do"""

    def __str__(self):
        return "Frame.%s" % str.__str__(self)[:4]

    __repr__ = __str__

    def __format__(self, spec):
        return str.__format__(str.__str__(self), spec)


def str_variants(msg):
    return [("numpy.str_", np.str_(msg)), ("str subclass", StrSub(msg)), ("str subclass with its own __str__", LoudStr(msg))]


def same_outcome(a, b):
    if a[0] != b[0]:
        return False
    if a[0] == "raise":
        return a[1] == b[1]
    return repr(a[1]) == repr(b[1]) or a[1] == b[1]


def hammer(jobs, nthreads=4, rounds=300):
    """jobs: list of (label, fn, args, expected).  Every thread runs all jobs `rounds` times in a different rotation with a tiny
    switch interval; returns a description of the first wrong result or None.  Pure functions must not care who else is calling."""
    old = sys.getswitchinterval()
    sys.setswitchinterval(1e-6)
    bad = []
    stop = threading.Event()

    def work(k):
        n = len(jobs)
        for r in range(rounds):
            for j in range(n):
                if stop.is_set():
                    return
                label, fn, args, exp = jobs[(j + k * 7 + r) % n]
                try:
                    got = ("ok", fn(*args))
                except Exception as e:  # noqa
                    got = ("raise", type(e).__name__)
                if got != exp:
                    bad.append("%s%r -> %r under %d concurrent callers, alone -> %r" % (label, tuple(args), got, nthreads, exp))
                    stop.set()
                    return

    ts = [threading.Thread(target=work, args=(k,)) for k in range(nthreads)]
    try:
        for t in ts:
            t.start()
        for t in ts:
            t.join()
    finally:
        sys.setswitchinterval(old)
    return bad[0] if bad else None


# ---------------------------------------------------------------------------------- first use of a fresh copy of the package, by several threads at once
_fresh = [0]


def fresh_package():
    """a new copy of the working-tree package under its own name: module-level state (lazily built tables, memo dicts) starts empty"""
    from vlib import dual
    _fresh[0] += 1
    alias = "pyModeS_fresh%d" % _fresh[0]
    pkg = dual.load_copy(alias, None)
    dual._cache.pop(alias, None)
    return pkg, alias


def drop_package(alias):
    for k in list(sys.modules):
        if k == alias or k.startswith(alias + "."):
            del sys.modules[k]


def resolve(pkg, path):
    import importlib
    obj = pkg
    for part in path.split("."):
        try:
            obj = getattr(obj, part)
        except AttributeError:
            obj = importlib.import_module(obj.__name__ + "." + part)   # a submodule the package does not import by itself
    return obj


def first_use(jobs, nthreads=4):
    """jobs: (path, args, expected) with expected = ('ok', value) | ('raise', TypeName) | callable(result) -> problem or None.
    A fresh copy of the package is loaded and `nthreads` threads, released together, make the process's *first* calls of these functions
    with a 1 us switch interval.  Whatever a function sets up on first use (tables, caches) must not be visible half-built to the others."""
    pkg, alias = fresh_package()
    fns = [(path, resolve(pkg, path), args, exp) for path, args, exp in jobs]
    old = sys.getswitchinterval()
    bad = []
    barrier = threading.Barrier(nthreads)

    def work(k):
        n = len(fns)
        barrier.wait()
        for j in range(n):
            path, fn, args, exp = fns[(j + (k // 2) * (n // 2)) % n]   # threads 0,1 start at the first job together, threads 2,3 half-way
            try:
                got = ("ok", fn(*args))
            except Exception as e:  # noqa
                got = ("raise", type(e).__name__)
            if callable(exp):
                p = exp(got)
            else:
                p = None if got == tuple(exp) else "expected %r" % (tuple(exp),)
            if p:
                bad.append("%s%r -> %r in a freshly imported copy of the package whose first calls are made by %d threads at once: %s" % (path, tuple(args), got, nthreads, p))
                return

    ts = [threading.Thread(target=work, args=(k,)) for k in range(nthreads)]
    sys.setswitchinterval(1e-6)
    try:
        for t in ts:
            t.start()
        for t in ts:
            t.join()
    finally:
        sys.setswitchinterval(old)
        drop_package(alias)
    return bad[0] if bad else None


def order_independence(jobs, describe=None):
    """jobs: list of (path, args).  Two fresh copies of the package make the same calls: copy A in the given order, copy B in the
    reverse order with every call made twice in a row.  A decoder that keeps nothing between calls gives every job the same outcome
    in both copies and on both of B's calls - whatever it returns; no reference is involved.  A memo whose key is coarser than the
    arguments (a rounded altitude, a prefix of the frame, 'the last input') answers a job with its neighbour's result in one of
    the two orders.  Returns (problem or None, outcomes of copy A)."""
    out = []
    for order in (0, 1):
        pkg, alias = fresh_package()
        try:
            fns = {}
            res = {}
            seq = list(enumerate(jobs))
            if order:
                seq.reverse()
            prev = None
            for i, (path, args) in seq:
                fn = fns.get(path) or fns.setdefault(path, resolve(pkg, path))
                for rep in range(2 if order else 1):
                    try:
                        got = ("ok", fn(*args))
                    except Exception as e:  # noqa
                        got = ("raise", type(e).__name__, str(e)[:80])
                    if rep and not same_outcome(res[i], got):
                        return ("%s%r -> %r, and the same call made again straight afterwards -> %r (fresh copy of the package; the call before was %s)"
                                % (path, tuple(args), res[i], got, prev)), None
                    res[i] = got
                prev = "%s%r" % (path, tuple(args))
            out.append(res)
        finally:
            drop_package(alias)
    for i, (path, args) in enumerate(jobs):
        if not same_outcome(out[0][i], out[1][i]):
            a = "%s%r" % (jobs[i - 1][0], tuple(jobs[i - 1][1])) if i else "nothing"
            b = "%s%r" % (jobs[i + 1][0], tuple(jobs[i + 1][1])) if i + 1 < len(jobs) else "nothing"
            return ("%s%r -> %r when called after %s, but -> %r when called after %s (two fresh copies of the package, the same %d calls in opposite orders)"
                    % (path, tuple(args), out[0][i], a, out[1][i], b, len(jobs))), None
    return None, out[0]


def scan_order_leg(make_scan, quick=48, thorough=2000, name="scan_order", doc=""):
    """make_scan(rng) -> (label, jobs): a *neighbour scan* - calls whose arguments differ in one quantity by its smallest steps, laid
    across a place where the right answer changes.  Judged by order_independence(); non-trivial = the scan's outcomes are not all equal."""
    import random

    from vlib.core import Leg

    def enum(ctx):
        for i in range(ctx.n):
            if ctx.mine(i):
                yield {"trial": i, "seed": ctx.rng("scan-order", i).getrandbits(32)}

    def chk(case, note):
        label, jobs = make_scan(random.Random(case["seed"]))
        p, res = order_independence(jobs)
        if p:
            return "[%s] %s" % (label, p)
        note.evals = len(jobs) * 3
        note.cls("scan:" + label)
        distinct = len(set(repr(res[i]) for i in res))
        note.cls("scan-outcomes:%s" % ("1" if distinct == 1 else "2" if distinct == 2 else "3+"))
        note.nt(distinct > 1, key=["scan", case["trial"], case["seed"]])
        return None

    leg = Leg(name, chk, enum=enum, quick=quick, thorough=thorough, exhaustive=False,
              doc=doc or "neighbour scans across a decision boundary, made in opposite orders by two fresh copies of the package: every call's outcome must be the same in both")
    leg.reeval = False
    leg.opt = False
    return leg


def first_use_leg(make_jobs, quick=64, thorough=3000, doc=""):
    """make_jobs(rng) -> job list (expected values from the reference encoders/tables, never from the library)."""
    import random

    from vlib.core import Leg

    def enum(ctx):
        for i in range(ctx.n):
            if ctx.mine(i):
                yield {"trial": i, "seed": ctx.rng("first-use", i).getrandbits(32)}

    def chk(case, note):
        jobs = make_jobs(random.Random(case["seed"]))
        p = first_use(jobs)
        if p:
            return p
        note.evals = len(jobs) * 4
        note.cls("first-use-4-threads")
        note.nt(True, key=["first-use", case["trial"], case["seed"]])
        return None

    leg = Leg("first_use", chk, enum=enum, quick=quick, thorough=thorough, exhaustive=False,
              doc=doc or "a fresh copy of the package per trial, its first calls made by four threads at once (1 us switch interval)")
    leg.reeval = False
    leg.opt = False   # not repeated in the python -O child run
    return leg


# ---------------------------------------------------------------------------------- RtlReader without hardware
def fake_rtlsdr():
    """pyrtlsdr is not installed on this image (and there is no dongle): give `import rtlsdr` a stand-in whose RtlSdr object accepts the
    attribute assignments of RtlReader.__init__, so that readers are built by their real constructor (debug=..., every attribute set)."""
    import types
    if "rtlsdr" in sys.modules:
        return
    fake = types.ModuleType("rtlsdr")

    class RtlSdr(object):
        def __init__(self, *a, **k):
            pass

        def read_samples_async(self, *a, **k):
            pass

        def cancel_read_async(self):
            pass

        def close(self):
            pass

    fake.RtlSdr = RtlSdr
    sys.modules["rtlsdr"] = fake


def make_reader(cls, debug=False):
    rd = cls(debug=True) if debug else cls()
    rd.signal_buffer = []
    rd.noise_floor = 1e6
    return rd
