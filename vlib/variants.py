"""Input *dimensions* that are easy to leave constant (found by the adversarial seeding rounds): call history on the same string,
argument types, access paths, aliasing of returned containers, concurrent callers."""
import sys
import threading

import numpy as np


class StrSub(str):
    """a user subclass of str (numpy.str_ is another one)"""


def prelude(pms, msg):
    """What a receiver typically does with a frame before decoding a field: the helpers are called on the *same string* first.
    A decoder must not depend on that history (caches keyed by the message, shared work buffers)."""
    for fn in (pms.common.df, pms.common.crc, pms.common.icao, pms.common.typecode, pms.common.hex2bin):
        try:
            fn(msg)
        except Exception:
            pass
    try:
        pms.common.crc(msg, encode=True)
    except Exception:
        pass
    crosstalk(pms, msg)


def _h(msg):
    x = 1469598103934665603
    for ch in msg:
        x = ((x ^ ord(ch)) * 1099511628211) & 0xFFFFFFFFFFFFFFFF
    return x


def crosstalk(pms, msg):
    """Other messages of the *same aircraft* (same address field, other type codes: identification, position of both parities, surface
    position, velocity, target state, operational status of version 1 or 2) decoded with the usual functions before the judged call.
    A decoder must not depend on what else has been decoded for that address (per-aircraft memory, caches keyed by the address)."""
    if len(msg) != 28:
        return
    try:
        first = int(msg[:2], 16)
    except ValueError:
        return
    if first >> 3 not in (17, 18):
        return
    A = pms.adsb
    x = _h(msg)
    head = msg[:8]
    low = (x >> 8) & ((1 << 51) - 1)
    ver = 1 + (x & 1)
    plan = (
        (31, low & ~(7 << 13) | (ver << 13), (A.version, A.nic_s, A.nic_a_c, A.nac_p, A.sil)),
        (19, low & ~(7 << 48) | (1 << 48), (A.velocity, A.speed_heading, A.nac_v)),
        (4, low, (A.callsign, A.category)),
        (11, low & ~(1 << 34), (A.altitude, A.nic_b, A.oe_flag)),
        (11, low | (1 << 34), (A.altitude, A.oe_flag)),
        (7, low, (A.surface_velocity,)),
        (29, low & ~(3 << 49) | (1 << 49), (A.selected_altitude, A.baro_pressure_setting, A.autopilot)),
        (28, low & ~(7 << 48) | (1 << 48), (A.emergency_state, A.emergency_squawk)),
    )
    frames_ = []
    for tc, rest, fns in plan:
        m = "%s%014X%06X" % (head, (tc << 51) | rest, (x >> 20) & 0xFFFFFF)
        frames_.append(m)
        for fn in fns:
            try:
                fn(m)
            except Exception:
                pass
        try:
            pms.common.typecode(m), pms.common.icao(m), pms.bds.infer(m)
        except Exception:
            pass
    try:
        A.position(frames_[3], frames_[4], 10, 11, 52.0, 4.0)
        A.position_with_ref(frames_[3], 52.0, 4.0)
        A.nic_v1(frames_[3], 1), A.nic_v2(frames_[3], 1, 1)
    except Exception:
        pass


def str_variants(msg):
    return [("numpy.str_", np.str_(msg)), ("str subclass", StrSub(msg))]


def same_outcome(a, b):
    if a[0] != b[0]:
        return False
    if a[0] == "raise":
        return a[1] == b[1]
    return repr(a[1]) == repr(b[1]) or a[1] == b[1]


def hammer(jobs, nthreads=4, rounds=300):
    """jobs: list of (label, fn, args, expected).  Every thread runs all jobs `rounds` times in a different rotation with a tiny
    switch interval; returns a description of the first wrong result or None.  Pure functions must not care who else is calling."""
    old = sys.getswitchinterval()
    sys.setswitchinterval(1e-6)
    bad = []
    stop = threading.Event()

    def work(k):
        n = len(jobs)
        for r in range(rounds):
            for j in range(n):
                if stop.is_set():
                    return
                label, fn, args, exp = jobs[(j + k * 7 + r) % n]
                try:
                    got = ("ok", fn(*args))
                except Exception as e:  # noqa
                    got = ("raise", type(e).__name__)
                if got != exp:
                    bad.append("%s%r -> %r under %d concurrent callers, alone -> %r" % (label, tuple(args), got, nthreads, exp))
                    stop.set()
                    return

    ts = [threading.Thread(target=work, args=(k,)) for k in range(nthreads)]
    try:
        for t in ts:
            t.start()
        for t in ts:
            t.join()
    finally:
        sys.setswitchinterval(old)
    return bad[0] if bad else None
