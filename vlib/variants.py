"""Input *dimensions* that are easy to leave constant (found by the adversarial seeding rounds): call history on the same string,
argument types, access paths, aliasing of returned containers, concurrent callers."""
import sys
import threading

import numpy as np


class StrSub(str):
    """a user subclass of str (numpy.str_ is another one)"""


def prelude(pms, msg):
    """What a receiver typically does with a frame before decoding a field: the helpers are called on the *same string* first.
    A decoder must not depend on that history (caches keyed by the message, shared work buffers)."""
    for fn in (pms.common.df, pms.common.crc, pms.common.icao, pms.common.typecode, pms.common.hex2bin):
        try:
            fn(msg)
        except Exception:
            pass
    try:
        pms.common.crc(msg, encode=True)
    except Exception:
        pass


def str_variants(msg):
    return [("numpy.str_", np.str_(msg)), ("str subclass", StrSub(msg))]


def same_outcome(a, b):
    if a[0] != b[0]:
        return False
    if a[0] == "raise":
        return a[1] == b[1]
    return repr(a[1]) == repr(b[1]) or a[1] == b[1]


def hammer(jobs, nthreads=4, rounds=300):
    """jobs: list of (label, fn, args, expected).  Every thread runs all jobs `rounds` times in a different rotation with a tiny
    switch interval; returns a description of the first wrong result or None.  Pure functions must not care who else is calling."""
    old = sys.getswitchinterval()
    sys.setswitchinterval(1e-6)
    bad = []
    stop = threading.Event()

    def work(k):
        n = len(jobs)
        for r in range(rounds):
            for j in range(n):
                if stop.is_set():
                    return
                label, fn, args, exp = jobs[(j + k * 7 + r) % n]
                try:
                    got = ("ok", fn(*args))
                except Exception as e:  # noqa
                    got = ("raise", type(e).__name__)
                if got != exp:
                    bad.append("%s%r -> %r under %d concurrent callers, alone -> %r" % (label, tuple(args), got, nthreads, exp))
                    stop.set()
                    return

    ts = [threading.Thread(target=work, args=(k,)) for k in range(nthreads)]
    try:
        for t in ts:
            t.start()
        for t in ts:
            t.join()
    finally:
        sys.setswitchinterval(old)
    return bad[0] if bad else None
