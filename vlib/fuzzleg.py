"""Glue between a check module and fuzz/atheris_target.py: run a libFuzzer campaign in a subprocess (one per shard),
turn a stored failure into a replayable case, report executions as evaluations."""
import json
import os
import re
import shutil
import subprocess
import sys
import tempfile

from vlib.core import VERIF


def available():
    try:
        sys.path.insert(0, os.path.join(VERIF, ".deps"))
        import atheris  # noqa: F401
        return True
    except Exception:
        return False


def campaign(which, ctx, runs_quick, runs_thorough, shards, max_len, extra=()):
    runs = runs_quick if ctx.tier == "quick" else runs_thorough
    if runs <= 0 or ctx.shard >= shards:
        if ctx.shard == 0:
            yield {"fuzz": "summary", "engine": "atheris", "status": "not run in this tier", "execs": 0}
        return
    if not available():
        if ctx.shard == 0:
            yield {"fuzz": "summary", "engine": "atheris", "status": "atheris not installed: campaign skipped (setup.sh installs it from the wheelhouse when present)", "execs": 0}
        return
    out = tempfile.mkdtemp(prefix="pmsfuzz-", dir=os.environ.get("SCRATCH", "/var/tmp"))
    try:
        env = dict(os.environ, PYTHONHASHSEED="0")
        cmd = [sys.executable, os.path.join(VERIF, "fuzz", "atheris_target.py"), which, out, "-runs=%d" % runs, "-seed=%d" % (ctx.seed * 101 + ctx.shard + 1),
               "-max_len=%d" % max_len, "-print_final_stats=1", "-timeout=60"] + list(extra)
        r = subprocess.run(cmd, env=env, capture_output=True, text=True)
        m = re.search(r"stat::number_of_executed_units:\s*(\d+)", r.stderr)
        execs = int(m.group(1)) if m else 0
        cov = re.findall(r"cov: (\d+) ft: (\d+) corp: (\d+)", r.stderr)
        fail = os.path.join(out, "failure.json")
        if os.path.exists(fail):
            with open(fail) as f:
                body = json.load(f)
            yield {"fuzz": "failure", "case": body["case"], "shard": ctx.shard}
        elif r.returncode != 0:
            yield {"fuzz": "summary", "engine": "atheris", "status": "campaign process exited %d without a stored failure: %s" % (r.returncode, r.stderr[-300:]), "execs": execs,
                   "error": True}
            return
        st = {}
        if os.path.exists(os.path.join(out, "stats.json")):
            with open(os.path.join(out, "stats.json")) as f:
                st = json.load(f)
        yield {"fuzz": "summary", "engine": "atheris", "status": "ok", "execs": execs, "shard": ctx.shard,
               "final_cov_ft_corpus": [int(x) for x in cov[-1]] if cov else None, "stats": st}
    finally:
        shutil.rmtree(out, ignore_errors=True)


def judge(case, note, inner):
    if case.get("fuzz") == "summary":
        note.evals = max(1, case.get("execs", 0)) if case.get("execs") else 0
        note.cls("atheris:" + case["status"][:40])
        if case.get("error"):
            raise RuntimeError("atheris campaign failed: " + case["status"])
        st = case.pop("stats", None) or {}
        note.nt_extra = st.get("nt_hashes")
        note.cls_extra = {"campaign:" + k: v for k, v in (st.get("classes") or {}).items()}
        note.samples_extra = st.get("samples")
        if case.get("final_cov_ft_corpus"):
            note.cls("atheris-corpus-size:%d" % case["final_cov_ft_corpus"][2])
        return None
    p = inner(case["case"], note)
    note.nt(True)
    return p
