"""Runner core: legs, sharded Hypothesis / enumeration drivers, evidence, replay.

A *check* (one per property) is a module ``checks/cNN.py`` exposing

    PROPERTY = "C01"
    RULE     = "<how cases are generated and what makes one non-trivial>"
    ASSUMPTIONS = [...]
    LEGS     = [Leg(...), ...]
    KNOWN_PREDICATES = {name: fn(leg_name, case) -> bool}      (optional)

A *leg* is one oracle over one generated domain.  Its ``check(case, note)`` is a
plain function of a JSON-able ``case`` (so a replay file can re-run it without
Hypothesis); it returns ``None`` when the property held on that case or a string
describing the disagreement.  Cases come either from a Hypothesis strategy
(``strategy=``) or from an enumerator (``enum=``, for finite sub-domains).
"""
import collections
import hashlib
import json
import zlib
import multiprocessing as mp
import os
import sys
import time
import traceback

VERIF = os.path.dirname(os.path.dirname(os.path.abspath(__file__)))
SRC = os.path.abspath(os.environ.get("PYMODES_SRC", "/repo/src"))
NPROC = int(os.environ.get("VERIF_NPROC", "16"))
# a second, smaller run of the same legs in a child interpreter started with PYTHONOPTIMIZE=2 (python -OO: assert statements and
# `if __debug__` blocks vanish, docstrings are None); the child samples every fourth enumerated case and a quarter of the generated ones
OPT_CHILD = os.environ.get("VERIF_OPT_CHILD") == "1"
OPT_ON = os.environ.get("VERIF_OPT", "1") != "0"
MAX_SAMPLES = 8


class HarnessError(Exception):
    pass


def setup_path():
    """Put the tree under test first on sys.path and make sure it is what gets imported."""
    deps = os.path.join(VERIF, ".deps")
    if os.path.isdir(deps) and deps not in sys.path:
        sys.path.insert(0, deps)
    if VERIF not in sys.path:
        sys.path.insert(0, VERIF)
    if SRC in sys.path:
        sys.path.remove(SRC)
    sys.path.insert(0, SRC)
    import pyModeS
    import warnings

    warnings.simplefilter("ignore")  # pyModeS re-enables DeprecationWarning at import

    f = os.path.abspath(pyModeS.__file__)
    if not f.startswith(SRC + os.sep):
        raise HarnessError("pyModeS imported from %s, not from %s" % (f, SRC))
    return pyModeS


KEYWORD_FORMS = os.environ.get("VERIF_KEYWORD_FORMS", "1") != "0"


class Note:
    """Per-case recorder handed to a leg's check function."""

    __slots__ = ("classes", "nontrivial", "key", "evals", "nt_extra", "cls_extra", "samples_extra")

    def __init__(self):
        self.classes = []
        self.nontrivial = False
        self.key = None
        self.evals = 1  # a case that stands for a whole enumerated block says how many
        self.nt_extra = None       # a campaign summary: hashes of the non-trivial cases the campaign executed
        self.cls_extra = None      # ... their class histogram
        self.samples_extra = None  # ... and a few of them written out

    def cls(self, *names):
        self.classes.extend(names)

    def nt(self, flag=True, key=None):
        if flag:
            self.nontrivial = True
        if key is not None:
            self.key = key


class Leg:
    def __init__(self, name, check, strategy=None, enum=None, quick=1000, thorough=None,
                 shards_quick=None, shards_thorough=None, exhaustive=False, doc=""):
        self.name = name
        self.check = check
        self.strategy = strategy  # callable -> hypothesis strategy of cases
        self.enum = enum  # callable(ctx) -> iterator of cases
        self.quick = quick  # examples (hyp) ; ignored by enum unless it reads ctx.n
        self.thorough = thorough if thorough is not None else quick * 20
        self.shards_quick = shards_quick
        self.shards_thorough = shards_thorough
        self.exhaustive = exhaustive
        self.doc = doc


class Ctx:
    """Handed to enumerators."""

    def __init__(self, tier, seed, shard, nshards, n):
        self.tier = tier
        self.seed = seed
        self.shard = shard
        self.nshards = nshards
        self.n = n  # per-leg size parameter for this tier (total, not per shard)

    def mine(self, idx):
        if OPT_CHILD and ((idx * 2654435761) >> 7) % 4 != 0:
            return False
        return idx % self.nshards == self.shard

    def rng(self, *salt):
        import random

        h = hashlib.sha256(repr((self.seed, salt)).encode()).digest()
        return random.Random(int.from_bytes(h[:8], "big"))


def case_hash(case):
    h = hashlib.blake2b(json.dumps(case, sort_keys=True, default=repr).encode(), digest_size=8)
    return int.from_bytes(h.digest(), "big")


class Stats:
    def __init__(self, leg):
        self.leg = leg
        self.evaluations = 0
        self.cases = 0
        self.nt_hashes = set()
        self.classes = collections.Counter()
        self.excluded = collections.Counter()
        self.samples = []
        self.failure = None  # {"case":..., "problem":...}
        self.harness_error = None
        self.wall = 0.0

    def merge(self, o):
        self.evaluations += o.evaluations
        self.cases += o.cases
        self.nt_hashes |= o.nt_hashes
        self.classes.update(o.classes)
        self.excluded.update(o.excluded)
        for s in o.samples:
            if len(self.samples) < MAX_SAMPLES:
                self.samples.append(s)
        if self.failure is None:
            self.failure = o.failure
        if self.harness_error is None:
            self.harness_error = o.harness_error
        self.wall += o.wall


def _from_pymodes(tb):
    for fs in traceback.extract_tb(tb):
        if os.path.abspath(fs.filename).startswith(SRC + os.sep):
            return True
    return False


def run_one(leg, case, stats, known):
    """Run a leg's check on one case with bookkeeping.  Returns problem or None."""
    for kname, pred in known:
        if pred(leg.name, case):
            stats.excluded[kname] += 1
            return None
    if isinstance(case, dict) and "__sequence__" in case:
        # a history of cases (produced by the re-evaluation in _run_shard): run them in order, the last one decides
        problem = None
        for sub in case["__sequence__"]:
            problem = run_one(leg, sub, Stats(leg.name), known)
        stats.evaluations += 1
        stats.cases += 1
        return problem
    # ambient process state alternates pseudo-randomly from case to case (a per-shard assignment aliased with the enumeration order)
    if not _STATE.get("pinned"):
        want = _HOSTILE_ON and ((stats.cases * 2654435761) >> 9) & 1 == 1
        if want != _STATE["hostile"]:
            process_state(want)
    note = Note()
    try:
        problem = leg.check(case, note)
    except Exception as e:  # noqa
        if _from_pymodes(e.__traceback__):
            problem = "unexpected %s escaped from pyModeS: %s" % (type(e).__name__, e)
        else:
            stats.harness_error = traceback.format_exc()
            raise
    stats.evaluations += note.evals
    stats.cases += 1
    if note.classes:
        stats.classes.update(note.classes)
    if note.nt_extra:
        stats.nt_hashes.update(note.nt_extra)
    if note.cls_extra:
        stats.classes.update(note.cls_extra)
    if note.samples_extra:
        stats.samples.extend({"leg": leg.name, "case": c, "classes": ["campaign-sample"]} for c in note.samples_extra[:max(0, MAX_SAMPLES - len(stats.samples))])
    if note.nontrivial:
        stats.nt_hashes.add(case_hash(case if note.key is None else note.key))
        if len(stats.samples) < MAX_SAMPLES and (stats.cases % 7 == 1 or len(stats.samples) < 2):
            stats.samples.append({"leg": leg.name, "case": case, "classes": list(note.classes)})
    return problem


def _known_for(mod):
    """Active (status == known) predicates for this property."""
    out = []
    preds = getattr(mod, "KNOWN_PREDICATES", {})
    for ent in load_known():
        if ent.get("status") == "known" and ent.get("property") == mod.PROPERTY:
            p = ent.get("predicate")
            if p not in preds:
                raise HarnessError("known finding %s names unknown predicate %r" % (ent.get("id"), p))
            out.append((ent["id"], preds[p]))
    return out


def load_known():
    p = os.path.join(VERIF, "known_findings.json")
    if not os.path.exists(p):
        return []
    with open(p) as f:
        return json.load(f).get("findings", [])


def _run_shard(args):
    modname, legname, tier, seed, shard, nshards, n = args
    t0 = time.time()
    setup_path()
    import importlib

    mod = importlib.import_module(modname)
    leg = [l for l in mod.LEGS if l.name == legname][0]
    stats = Stats(legname)
    known = _known_for(mod)
    _STATE["under"] = "raise" if getattr(mod, "HOSTILE_UNDERFLOW", False) else "ignore"
    process_state(False)
    try:
        if getattr(leg, "machine", None) is not None:
            _run_machine(leg, stats, tier, seed, shard, nshards, n)
        elif leg.enum is not None:
            ctx = Ctx(tier, seed, shard, nshards, n)
            prev = None
            k = 0
            for case in leg.enum(ctx):
                problem = run_one(leg, case, stats, known)
                if problem is not None:
                    stats.failure = {"case": case, "problem": problem}
                    break
                k += 1
                if prev is not None and k % 16 == 0 and getattr(leg, "reeval", True):
                    # decoders are functions: an earlier case evaluated again after a later one must still hold (caches, shared buffers)
                    again = run_one(leg, prev, Stats(leg.name), known)
                    if again is not None:
                        stats.failure = {"case": {"__sequence__": [prev, case, prev]},
                                         "problem": "held when first evaluated, fails when evaluated again after another case: " + again}
                        break
                prev = case
        else:
            _run_hyp(leg, stats, known, tier, seed, shard, nshards, n)
    except Exception:
        if stats.harness_error is None and stats.failure is None:
            stats.harness_error = traceback.format_exc()
    stats.wall = time.time() - t0
    if stats.failure is not None:
        # how to get here again from a fresh process, should the failing case turn out to depend on what the process did before it
        stats.failure["recipe"] = {"module": modname, "leg": legname, "tier": tier, "seed": seed, "shard": shard, "nshards": nshards, "n": n}
    return stats


_HOSTILE_ON = os.environ.get("VERIF_HOSTILE", "1") != "0"
_STATE = {"hostile": None}


def process_state(hostile):
    """About every second case runs in a process whose ambient state is unfriendly: numpy traps floating-point errors, RuntimeWarnings are errors,
    the decimal context has 3 digits.  A decoder must not lean on the defaults (the unchanged tree is clean under all three)."""
    import decimal
    import warnings

    import numpy as np

    _STATE["hostile"] = bool(hostile)
    warnings.resetwarnings()
    warnings.simplefilter("ignore")
    if hostile:
        # (underflow is trapped only where a check asks for it - HOSTILE_UNDERFLOW - because arithmetic on denormal *inputs* underflows legitimately)
        np.seterr(divide="raise", over="raise", invalid="raise", under=_STATE.get("under", "ignore"))
        # `python -W error` (a test suite's setting): every warning is an exception, except the deprecation notices the library issues on purpose
        warnings.simplefilter("error")
        warnings.filterwarnings("ignore", category=DeprecationWarning)
        warnings.filterwarnings("ignore", category=PendingDeprecationWarning)
        decimal.getcontext().prec = 3
        # an application (a notebook) that has set numpy's print options: arrays longer than 5 items are summarised, explicit signs, short lines
        np.set_printoptions(threshold=5, edgeitems=1, linewidth=20, sign="+", precision=2, floatmode="fixed", suppress=True)
    else:
        np.seterr(divide="warn", over="warn", under="ignore", invalid="warn")
        decimal.getcontext().prec = 28
        np.set_printoptions(threshold=1000, edgeitems=3, linewidth=75, sign="-", precision=8, floatmode="maxprec", suppress=False)


def _run_hyp(leg, stats, known, tier, seed, shard, nshards, n):
    import hypothesis
    from hypothesis import HealthCheck, Phase, given, settings

    per = max(1, (n + nshards - 1) // nshards)
    if OPT_CHILD:
        per = max(1, per // 4)
    shrink_budget = 20.0 if tier == "quick" else 90.0
    state = {"t_fail": None}
    legidx = sum(ord(c) for c in leg.name) % 997

    @hypothesis.seed(seed * 1000003 + shard * 1009 + legidx)
    @settings(max_examples=per, database=None, deadline=None, derandomize=False,
              report_multiple_bugs=False, suppress_health_check=list(HealthCheck),
              phases=[Phase.generate, Phase.shrink], print_blob=False)
    @given(leg.strategy())
    def t(case):
        if state["t_fail"] is not None and time.time() - state["t_fail"] > shrink_budget:
            return  # shrink budget exhausted: stop the shrinker making progress
        if state.get("frozen"):
            return
        problem = run_one(leg, case, stats, known)
        if problem is not None:
            stats.failure = {"case": case, "problem": problem}
            if state["t_fail"] is None:
                state["t_fail"] = time.time()
            raise AssertionError(problem)
        state["k"] = state.get("k", 0) + 1
        prev = state.get("prev")
        if prev is not None and state["k"] % 16 == 0 and state["t_fail"] is None and getattr(leg, "reeval", True):
            # an earlier case evaluated again after a later one must still hold (caches, shared buffers between calls)
            again = run_one(leg, prev, Stats(leg.name), known)
            if again is not None:
                stats.failure = {"case": {"__sequence__": [prev, case, prev]},
                                 "problem": "held when first evaluated, fails when evaluated again after another case: " + again}
                state["frozen"] = True   # history-dependent: not shrinkable by replaying single examples
                raise AssertionError(again)
        state["prev"] = case

    try:
        t()
    except BaseException as e:  # noqa
        if isinstance(e, (KeyboardInterrupt, SystemExit)):
            raise
        if stats.failure is None and stats.harness_error is None:
            stats.harness_error = traceback.format_exc()


def _run_machine(leg, stats, tier, seed, shard, nshards, n):
    """Rule-based state machine leg.  The machine class logs plain step lists (class attributes BEST / COLLECT),
    so that a failure becomes a {"steps": [...]} case that leg.check replays without Hypothesis."""
    import hypothesis
    from hypothesis import HealthCheck, Phase, settings
    from hypothesis.stateful import run_state_machine_as_test

    M = leg.machine
    M.BEST, M.T_FAIL, M.COLLECT = None, None, []
    M.BUDGET = 25.0 if tier == "quick" else 120.0
    per = max(1, (n + nshards - 1) // nshards)
    if OPT_CHILD:
        per = max(1, per // 4)
    steps = leg.steps_quick if tier == "quick" else leg.steps_thorough
    legidx = sum(ord(c) for c in leg.name) % 997
    cls = hypothesis.seed(seed * 1000003 + shard * 1009 + legidx)(M)
    try:
        run_state_machine_as_test(cls, settings=settings(max_examples=per, stateful_step_count=steps, database=None, deadline=None,
                                                         derandomize=False, report_multiple_bugs=False, print_blob=False,
                                                         suppress_health_check=list(HealthCheck), phases=[Phase.generate, Phase.shrink]))
    except BaseException as e:  # noqa
        if isinstance(e, (KeyboardInterrupt, SystemExit)):
            raise
        if M.BEST is not None:
            stats.failure = {"case": {"steps": M.BEST[0]}, "problem": M.BEST[1]}
        elif _from_pymodes(e.__traceback__):
            stats.failure = {"case": {"steps": []}, "problem": "unexpected %s escaped from pyModeS: %s" % (type(e).__name__, e)}
        else:
            stats.harness_error = traceback.format_exc()
    for h, st_, nac, steps_kept in M.COLLECT:
        stats.cases += 1
        stats.evaluations += max(1, st_.get("flush", 0))
        nt = bool(st_.get("ref") and (st_.get("evict") or st_.get("merge") or st_.get("cross"))) or st_.get("ref", 0) > 3
        for k in ("evict", "merge", "cross", "ref"):
            if st_.get(k):
                stats.classes["with-" + k] += 1
        stats.classes["aircraft:%d" % nac] += 1
        if nt:
            stats.nt_hashes.add(h)
            if len(stats.samples) < 2 and steps_kept is not None:
                stats.samples.append({"leg": leg.name, "case": {"steps (first 40)": steps_kept, "stats": st_, "aircraft": nac}, "classes": []})


def generic_shrink(leg, case, known):
    """Greedy simplification of an enumerated failing case (keeps it failing)."""
    def fails(c):
        try:
            return _run_pinned(leg, c, False) is not None or _run_pinned(leg, c, True) is not None
        except Exception:
            return False

    if not isinstance(case, dict) or "__sequence__" in case:
        return case
    cur = dict(case)
    t0 = time.time()
    changed = True
    while changed and time.time() - t0 < 15:
        changed = False
        for k in sorted(cur):
            if not k.startswith("ctx"):
                continue  # only context fields (named ctx*) are simplified
            v = cur[k]
            cands = []
            if isinstance(v, int) and not isinstance(v, bool) and v != 0:
                cands = [0, v >> 1, v & (v - 1)]
            elif isinstance(v, str) and v and set(v) != {"0"}:
                cands = ["0" * len(v)]
            for c in cands:
                trial = dict(cur)
                trial[k] = c
                if fails(trial):
                    cur = trial
                    changed = True
                    break
    return cur


def write_replay(prop, legname, failure, seed, tier):
    rdir = os.environ.get("VERIF_EVIDENCE_DIR") or os.path.join(VERIF, "replays")
    os.makedirs(rdir, exist_ok=True)
    body = {"property": prop, "leg": legname, "case": failure["case"], "problem": failure["problem"],
            "seed": seed, "tier": tier}
    if failure.get("recipe"):
        body["recipe"] = failure["recipe"]
    if failure.get("interpreter") or sys.flags.optimize:
        body["interpreter"] = "-O"
        body["hashseed"] = failure.get("hashseed") or os.environ.get("PYTHONHASHSEED", "0")
    sha = hashlib.sha1(json.dumps([prop, legname, failure["case"]], sort_keys=True, default=repr).encode()).hexdigest()[:12]
    path = os.path.join(rdir, "%s-%s.json" % (prop, sha))
    with open(path, "w") as f:
        json.dump(body, f, indent=1, default=repr)
    return path


def _import_failure(modname):
    """Import the check module (and with it the package under test).  Returns (module, None), or (None, description) when the import fails
    inside the package under test itself - e.g. in an interpreter started with -OO, where docstrings are None."""
    import importlib
    try:
        setup_path()
        return importlib.import_module(modname), None
    except Exception as e:  # noqa
        tb = traceback.extract_tb(e.__traceback__)
        if tb and os.path.abspath(tb[-1].filename).startswith(SRC):
            return None, "the package fails to import%s: %s: %s (%s line %d)" % (
                " in an interpreter started with python -OO" if sys.flags.optimize else "", type(e).__name__, e, os.path.relpath(tb[-1].filename, SRC), tb[-1].lineno)
        raise


def run_check(modname, tier, seed, only_legs=None):
    t0 = time.time()

    mod, broken = _import_failure(modname)
    if broken:
        prop = "C" + modname[-2:]
        path = write_replay(prop, "__import__", {"case": {"__import__": modname}, "problem": broken}, seed, tier)
        print("  failing leg __import__: %s" % broken)
        print("VIOLATION property=%s replay=%s" % (prop, path))
        return 1
    prop = mod.PROPERTY
    tasks = []
    for leg in mod.LEGS:
        if only_legs and leg.name not in only_legs:
            continue
        n = leg.quick if tier == "quick" else leg.thorough
        ns = (leg.shards_quick if tier == "quick" else leg.shards_thorough)
        if ns is None:
            if leg.enum is not None or getattr(leg, "machine", None) is not None:
                ns = NPROC
            else:
                ns = max(2, min(NPROC, n // 300))
        for sh in range(ns):
            tasks.append((modname, leg.name, tier, seed, sh, ns, n))
    per_leg = collections.OrderedDict((l.name, Stats(l.name)) for l in mod.LEGS
                                      if not only_legs or l.name in only_legs)
    child = _opt_child_start(mod, tier, seed, only_legs)
    if NPROC > 1 and len(tasks) > 1:
        ctxm = mp.get_context("fork")
        with ctxm.Pool(min(NPROC, len(tasks))) as pool:
            results = pool.map(_run_shard, tasks, chunksize=1)
    else:
        results = [_run_shard(t) for t in tasks]
    for task, st in zip(tasks, results):
        per_leg[task[1]].merge(st)

    # replay tier: every stored failing case of this property (found on the pinned tree, since fixed) must now pass
    regress = replay_stored(mod, per_leg)
    herr = [s for s in per_leg.values() if s.harness_error]
    known_lines, known_info = probe_known(mod)
    failures = [(name, s.failure) for name, s in per_leg.items() if s.failure]
    failures += [(name, fl) for name, fl, _ in regress["failed"]]
    opt_info = _opt_child_finish(child, failures)
    viol_paths = []
    if failures:
        name, fl = failures[0]
        leg = ([l for l in mod.LEGS if l.name == name] or [None])[0]
        if leg is not None and leg.enum is not None and not fl.get("interpreter"):
            fl = dict(fl)
            fl["case"] = generic_shrink(leg, fl["case"], [])
        viol_paths.append(write_replay(prop, name, fl, seed, tier))
    wall = time.time() - t0
    ev = build_evidence(mod, per_leg, tier, seed, wall, len(failures), known_info)
    ev["coverage"]["stored_replays_rerun"] = regress["n"]
    if opt_info is not None:
        ev["coverage"]["optimized_interpreter"] = opt_info
    evdir = os.environ.get("VERIF_EVIDENCE_DIR") or os.path.join(VERIF, "evidence")
    os.makedirs(evdir, exist_ok=True)
    if not only_legs or OPT_CHILD:
        with open(os.path.join(evdir, prop + ".json"), "w") as f:
            json.dump(ev, f, indent=1, default=repr)
    for ln in known_lines:
        print(ln)
    print("%s tier=%s seed=%d evaluations=%d distinct_nontrivial=%d wall=%.1fs" % (
        prop, tier, seed, ev["coverage"]["evaluations"], ev["coverage"]["distinct_nontrivial"], wall))
    for name, s in per_leg.items():
        print("  leg %-28s eval=%-8d nontrivial=%-8d excluded=%s %s" % (
            name, s.evaluations, len(s.nt_hashes), dict(s.excluded) or "-", "FAIL" if s.failure else "ok"))
    if failures:
        for name, fl in failures:
            print("  failing leg %s: %s" % (name, fl["problem"][:400]))
        print("VIOLATION property=%s replay=%s" % (prop, viol_paths[0]))
        return 1
    if herr:
        for s in herr:
            sys.stderr.write("HARNESS ERROR in leg %s:\n%s\n" % (s.leg, s.harness_error))
        return 2
    return 0


def _opt_child_start(mod, tier, seed, only_legs):
    import subprocess
    import tempfile

    if OPT_CHILD or not OPT_ON or sys.flags.optimize:
        return None
    names = [l.name for l in mod.LEGS if getattr(l, "opt", True) and l.name != "threads" and not l.name.startswith("atheris")
             and (not only_legs or l.name in only_legs)]
    if not names:
        return None
    d = tempfile.mkdtemp(prefix="pmsopt-", dir="/var/tmp")
    # the child also runs under another (fixed, seed-derived) string-hash seed: set/dict iteration order over strings differs from the parent's
    env = dict(os.environ, PYTHONOPTIMIZE="2", PYTHONHASHSEED=str(1 + (seed * 7919 + 12345) % 4000000000), VERIF_OPT_CHILD="1", VERIF_EVIDENCE_DIR=d, VERIF_SEED=str(seed),
               VERIF_NPROC=str(max(2, NPROC // 4)))
    proc = subprocess.Popen([os.path.join(VERIF, "check"), mod.PROPERTY, "--tier", tier, "--legs", ",".join(names)],
                            env=env, stdout=subprocess.PIPE, stderr=subprocess.PIPE, text=True)
    return proc, d, names


def _opt_child_finish(child, failures):
    import shutil

    if child is None:
        return None
    proc, d, names = child
    try:
        out, err = proc.communicate()
        if proc.returncode == 1:
            path = [ln.split("replay=", 1)[1].strip() for ln in out.splitlines() if ln.startswith("VIOLATION ")][0]
            with open(path) as f:
                body = json.load(f)
            fl = {"case": body["case"], "problem": "[in an interpreter started with python -OO] " + body["problem"], "interpreter": "-O",
                  "hashseed": body.get("hashseed")}
            if body.get("recipe"):
                fl["recipe"] = body["recipe"]
            failures.append((body["leg"], fl))
        elif proc.returncode != 0:
            raise HarnessError("the python -O child run failed (exit %r):\n%s" % (proc.returncode, err[-3000:]))
        info = {"flags": "PYTHONOPTIMIZE=2 (python -OO: no assert statements, no docstrings), another hash seed", "legs": names, "sampling": "every fourth enumerated case, a quarter of the generated cases"}
        try:
            with open([os.path.join(d, x) for x in os.listdir(d) if x.endswith(".json") and "-" not in x][0]) as f:
                cev = json.load(f)
            info["evaluations"] = cev["coverage"]["evaluations"]
            info["distinct_nontrivial"] = cev["coverage"]["distinct_nontrivial"]
        except Exception:
            pass
        return info
    finally:
        shutil.rmtree(d, ignore_errors=True)


def replay_stored(mod, per_leg):
    """Re-run replays/<PROP>-*.json (regression inputs) through the plain check functions."""
    import glob

    out = {"n": 0, "failed": []}
    known_witness = {json.dumps(e["witness"]["case"], sort_keys=True) for e in load_known()
                     if e.get("status") == "known" and e.get("property") == mod.PROPERTY}
    legs = {l.name: l for l in mod.LEGS}
    for path in sorted(glob.glob(os.path.join(VERIF, "replays", mod.PROPERTY + "-*.json"))):
        try:
            with open(path) as f:
                body = json.load(f)
        except Exception:
            continue
        if body.get("leg") not in legs or body["leg"] not in per_leg:
            continue
        if json.dumps(body["case"], sort_keys=True) in known_witness:
            continue  # the witness of a listed known finding is reported by probe_known, not here
        problem = None
        for hostile in (False, True):
            problem = _run_pinned(legs[body["leg"]], body["case"], hostile)
            if problem is not None:
                break
        out["n"] += 1
        if problem is not None:
            out["failed"].append((body["leg"], {"case": body["case"], "problem": "stored regression input %s fails again: %s" % (os.path.basename(path), problem)}, path))
    return out


def _run_pinned(leg, case, hostile):
    """run one case with the ambient process state pinned"""
    try:
        process_state(hostile)
        _STATE["pinned"] = True
        return run_one(leg, case, Stats(leg.name), [])
    finally:
        _STATE["pinned"] = False
        process_state(False)


def probe_known(mod):
    """Re-run the stored witness of every listed known finding of this property."""
    lines, info = [], []
    legs = {l.name: l for l in mod.LEGS}
    for ent in load_known():
        if ent.get("property") != mod.PROPERTY or ent.get("status") != "known":
            continue
        w = ent["witness"]
        leg = legs[w["leg"]]
        st = Stats(leg.name)
        try:
            problem = run_one(leg, w["case"], st, [])
        except Exception:
            raise HarnessError("witness of known finding %s crashed the harness:\n%s" % (ent["id"], traceback.format_exc()))
        if problem is not None:
            lines.append("KNOWN-FINDING: property=%s %s: %s" % (mod.PROPERTY, ent["id"], ent["what"]))
        info.append({"id": ent["id"], "still_fails": problem is not None})
    return lines, info


def build_evidence(mod, per_leg, tier, seed, wall, nviol, known_info):
    all_nt = set()
    for name, s in per_leg.items():
        all_nt |= {(name, h) for h in s.nt_hashes}
    samples = []
    for s in per_leg.values():
        samples.extend(s.samples[:2])
    legs = {}
    for l in mod.LEGS:
        if l.name not in per_leg:
            continue
        s = per_leg[l.name]
        legs[l.name] = {
            "engine": "stateful-hypothesis" if getattr(l, "machine", None) is not None else ("enumeration" if l.enum is not None else "hypothesis"),
            "exhaustive": bool(l.exhaustive),
            "doc": l.doc,
            "evaluations": s.evaluations,
            "cases": s.cases,
            "distinct_nontrivial": len(s.nt_hashes),
            "excluded_known": dict(s.excluded),
            "classes": dict(s.classes.most_common(40)),
            "cpu_s": round(s.wall, 2),
        }
    cov = {
        "evaluations": sum(s.evaluations for s in per_leg.values()),
        "distinct_nontrivial": len(all_nt),
        "rule": mod.RULE,
        "samples": samples[:12],
        "exhaustive": all(l.exhaustive for l in mod.LEGS) if mod.LEGS else False,
        "exhaustive_legs": [l.name for l in mod.LEGS if l.exhaustive],
        "legs": legs,
        "known_findings": known_info,
        "process_state": "about half of the cases (pseudo-randomly) run with numpy trapping divide/overflow/invalid, every warning except deprecation notices as an error, a 3-digit decimal context and non-default numpy print options (threshold 5, explicit signs); the others with the defaults",
        "tree": SRC,
    }
    extra = getattr(mod, "EXTRA_COVERAGE", None)
    if callable(extra):
        cov.update(extra())
    return {
        "property_id": mod.PROPERTY,
        "tier": tier,
        "seed": seed,
        "level": "exploration",
        "coverage": cov,
        "assumptions": list(getattr(mod, "ASSUMPTIONS", [])),
        "wall_s": round(wall, 2),
        "violations": nviol,
    }


def run_replay(modname, path):
    import importlib

    with open(path) as f:
        body = json.load(f)
    if body.get("interpreter") == "-O" and not sys.flags.optimize:
        prop_ = body.get("property") or ("C" + modname[-2:])
        import subprocess
        # found under python -O: replay it there
        r = subprocess.run([os.path.join(VERIF, "check"), prop_, "--replay", os.path.abspath(path)],
                           env=dict(os.environ, PYTHONOPTIMIZE="2", PYTHONHASHSEED=str(body.get("hashseed") or "0"), VERIF_OPT_CHILD="1"))
        return r.returncode
    mod, broken = _import_failure(modname)
    if mod is not None:
        _STATE["under"] = "raise" if getattr(mod, "HOSTILE_UNDERFLOW", False) else "ignore"
    if broken or body.get("leg") == "__import__":
        if broken:
            print("replay %s: %s" % (path, broken))
            print("VIOLATION property=%s replay=%s" % (body.get("property"), path))
            return 1
        print("replay %s leg=__import__: property held (the package imports)" % path)
        return 0
    leg = [l for l in mod.LEGS if l.name == body["leg"]][0]
    problem = None
    for hostile in (False, True):  # a stored case is replayed under both ambient process states
        problem = _run_pinned(leg, body["case"], hostile)
        if problem is not None:
            problem = "[process state: %s] %s" % ("numpy traps / warnings=error / decimal prec 3 / numpy print options" if hostile else "defaults", problem)
            break
    process_state(False)
    rc = body.get("recipe")
    if problem is None and rc and rc.get("module") == modname:
        # the case holds on its own: it may have failed because of what the process had done before it (caches, counters).  Re-run the
        # shard that found it - a pure function of the code and the seed - from this fresh process.
        st = _run_shard((rc["module"], rc["leg"], rc["tier"], rc["seed"], rc["shard"], rc["nshards"], rc["n"]))
        if st.harness_error:
            raise HarnessError(st.harness_error)
        if st.failure is not None:
            problem = "[the case alone holds; shard %d/%d of leg %s at seed %d, tier %s, run again from a fresh process] %s" % (
                rc["shard"], rc["nshards"], rc["leg"], rc["seed"], rc["tier"], st.failure["problem"])
    if problem is not None:
        print("replay %s leg=%s: %s" % (path, leg.name, problem))
        print("VIOLATION property=%s replay=%s" % (mod.PROPERTY, path))
        return 1
    print("replay %s leg=%s: property held" % (path, leg.name))
    return 0


_KW_SIG = {}
_KW_COUNT = [0, 0]   # calls repeated in keyword form, of which with differing outcome


def _kw_names(f):
    """parameter names of a plain module-level function (None: not introspectable, variadic or positional-only - left alone)"""
    import inspect
    key = id(f)
    if key not in _KW_SIG:
        names = None
        try:
            top = (getattr(f, "__module__", "") or "").split(".")[0]
            if inspect.isfunction(f) and (top.startswith("pyModeS") or top.startswith("pms_") or top.startswith("c_common")):
                # functions of the package (under any of the names its copies are loaded as) - never a helper of the harness, which may hold state
                ps = list(inspect.signature(f).parameters.values())
                if all(p.kind == p.POSITIONAL_OR_KEYWORD for p in ps) and not (ps and ps[0].name in ("self", "cls")):
                    names = [p.name for p in ps]   # (a method called through its class would be given its object twice: left alone)
        except (TypeError, ValueError):
            names = None
        _KW_SIG[key] = (f, names)   # (keeps f alive so that the id stays its own)
    return _KW_SIG[key][1]


def _same(a, b):
    if a[0] != b[0]:
        return False
    if a[0] == "raise":
        return a[1] == b[1]
    try:
        return repr(a[1]) == repr(b[1])
    except Exception:  # noqa
        return True


def call(f, *a, **k):
    """Call code under test; ('ok', value) or ('raise', TypeName, message).
    A plain function called with positional arguments only is, in one call out of four (chosen by the arguments), called again
    with every argument passed by name, the names in reverse order - `f(msg, lat_ref, lon_ref)` as `f(lon_ref=.., lat_ref=.., msg=..)`.
    How the arguments are passed is not an input of any property: a different outcome is returned as a KeywordFormDiffers failure."""
    try:
        r = ("ok", f(*a, **k))
    except Exception as e:  # noqa
        r = ("raise", type(e).__name__, str(e)[:200])
    if a and not k and KEYWORD_FORMS:
        names = _kw_names(f)
        if names is not None and len(names) >= len(a):
            try:
                pick = zlib.crc32(repr(a).encode()) & 3 == 0
            except Exception:  # noqa
                pick = False
            if pick:
                kw = dict(reversed(list(zip(names, a))))
                try:
                    r2 = ("ok", f(**kw))
                except Exception as e:  # noqa
                    r2 = ("raise", type(e).__name__, str(e)[:200])
                _KW_COUNT[0] += 1
                if not _same(r, r2):
                    _KW_COUNT[1] += 1
                    return ("raise", "KeywordFormDiffers", "%s%r -> %r but %s(%s) -> %r" % (getattr(f, "__name__", f), a, r, getattr(f, "__name__", f),
                                                                                              ", ".join("%s=%r" % kv for kv in kw.items()), r2))
    return r
