"""Volume legs: one process evaluates a very large number of distinct inputs in a row (memo tables that overflow, evict or recycle
rows, counters, anything that depends on how much the process has already decoded).  The whole run is one case, so a stored
failing case replays with its history.

Besides the plain stream the run
  * evaluates, for a sample of inputs, two *siblings* (the same pseudo-random words with the lowest bits of the first one changed:
    for the step functions here that is the same payload under another carrier / type code / letter case),
  * comes back to those sampled inputs (and their siblings) after 4100 ... 1 050 000 further distinct inputs - an identical string
    decoded again at every distance at which a ring or an LRU of a plausible size (2^12 ... 2^20) has just recycled its entry,
  * ends with four threads decoding unseen inputs concurrently (1 us switch interval) in the process that has seen all of the above.
"""
import sys
import threading

from vlib.core import Leg

_M = (1 << 64) - 1
DIST = [4100, 5000, 6000, 7000, 8100, 9000, 17000, 33000, 66000, 70000, 132000, 140000, 263000, 530000, 1050000, 1100000, 2100000]


def stream(seed):
    x = seed & _M
    while True:
        x = (x * 6364136223846793005 + 1442695040888963407) & _M
        y = ((x ^ (x >> 29)) * 0xBF58476D1CE4E5B9) & _M
        yield y ^ (y >> 32)


def leg(step, quick, thorough, doc, name="volume", finale=2000):
    """step(a, b, k) -> problem or None; a, b are fresh 64-bit pseudo-random words, k the running index."""

    def enum(ctx):
        for k in range(ctx.nshards):
            if ctx.mine(k):
                yield {"n": quick if ctx.tier == "quick" else thorough, "seed": ctx.rng("volume", k).getrandbits(48)}

    def chk(case, note):
        g = stream(case["seed"])
        n = case["n"]
        due = {}          # index -> list of (a, b, k0) to evaluate again
        revisits = 0
        for k in range(n):
            a, b = next(g), next(g)
            p = step(a, b, k)
            if p:
                return "%s (distinct input number %d evaluated by this process in this run)" % (p, k + 1)
            if k < 8 or k % 50000 == 0:
                for sib in (a ^ 1, a ^ 2):
                    p = step(sib, b, k)
                    if p:
                        return "%s (sibling of input number %d of this run)" % (p, k + 1)
                for d in DIST:
                    if k + d < n:
                        due.setdefault(k + d, []).append((a, b, k))
            for (a0, b0, k0) in due.pop(k, ()):
                for a1 in (a0, a0 ^ 1, a0 ^ 2):
                    revisits += 1
                    p = step(a1, b0, k0)
                    if p:
                        return "%s (input number %d of this run evaluated again after %d further distinct inputs; it held the first time)" % (p, k0 + 1, k - k0)
        # four concurrent callers on unseen inputs, in the process that has decoded all of the above
        bad = []
        if finale:
            old = sys.getswitchinterval()

            def work(t):
                gt = stream(case["seed"] * 7919 + t + 1)
                for j in range(finale):
                    try:
                        p = step(next(gt), next(gt), n + j)
                    except Exception as e:  # noqa  (step functions catch the library's exceptions themselves)
                        p = "harness: %r" % (e,)
                    if p:
                        bad.append("%s (one of four concurrent callers, after %d distinct inputs decoded sequentially by this process)" % (p, n))
                        return
                    if bad:
                        return
            ts = [threading.Thread(target=work, args=(t,)) for t in range(4)]
            sys.setswitchinterval(1e-6)
            try:
                for t in ts:
                    t.start()
                for t in ts:
                    t.join()
            finally:
                sys.setswitchinterval(old)
            if bad:
                return bad[0]
        note.evals = n + revisits + 4 * finale
        note.cls("volume-%d" % n)
        note.nt(True, key=["volume", n, case["seed"]])
        return None

    lg = Leg(name, chk, enum=enum, exhaustive=False, shards_quick=1, shards_thorough=2, doc=doc)
    lg.opt = False   # not repeated in the python -O child run
    return lg
