"""Volume legs: one process evaluates a very large number of distinct inputs in a row (memo tables that overflow or evict,
counters, anything that depends on how much the process has already decoded).  The whole run is one case, so a stored
failing case replays with its history."""
from vlib.core import Leg

_M = (1 << 64) - 1


def stream(seed):
    x = seed & _M
    while True:
        x = (x * 6364136223846793005 + 1442695040888963407) & _M
        y = ((x ^ (x >> 29)) * 0xBF58476D1CE4E5B9) & _M
        yield y ^ (y >> 32)


def leg(step, quick, thorough, doc, name="volume"):
    """step(a, b, k) -> problem or None; a, b are fresh 64-bit pseudo-random words, k the running index."""

    def enum(ctx):
        for k in range(ctx.nshards):
            if ctx.mine(k):
                yield {"n": quick if ctx.tier == "quick" else thorough, "seed": ctx.rng("volume", k).getrandbits(48)}

    def chk(case, note):
        g = stream(case["seed"])
        for k in range(case["n"]):
            p = step(next(g), next(g), k)
            if p:
                return "%s (distinct input number %d evaluated by this process in this run)" % (p, k + 1)
        note.evals = case["n"]
        note.cls("volume-%d" % case["n"])
        note.nt(True, key=["volume", case["n"], case["seed"]])
        return None

    return Leg(name, chk, enum=enum, exhaustive=False, shards_quick=1, shards_thorough=2, doc=doc)
