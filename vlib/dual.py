"""Load pyModeS twice in one process: once bound to py_common, once bound to a given c_common module
(the emulated working-tree .pyx, or the pre-built binary)."""
import glob
import importlib.machinery
import importlib.util
import os
import sys

from vlib.core import SRC, HarnessError

_cache = {}


def load_copy(alias, cmod):
    """cmod None -> force py_common; else a module object used as <alias>.c_common."""
    if alias in _cache:
        return _cache[alias]
    pkgdir = os.path.join(SRC, "pyModeS")
    spec = importlib.util.spec_from_file_location(alias, os.path.join(pkgdir, "__init__.py"),
                                                  submodule_search_locations=[pkgdir])
    pkg = importlib.util.module_from_spec(spec)
    sys.modules[alias] = pkg
    sys.modules[alias + ".c_common"] = cmod  # None makes "from . import c_common" raise ImportError
    if cmod is not None:
        pkg.c_common = cmod
    spec.loader.exec_module(pkg)
    import warnings

    warnings.simplefilter("ignore")  # the package re-enables DeprecationWarning on import
    want = "py_common" if cmod is None else None
    got = pkg.common
    if cmod is None and not got.__name__.endswith("py_common"):
        raise HarnessError("copy %s did not select py_common" % alias)
    if cmod is not None and got is not cmod:
        raise HarnessError("copy %s did not select the supplied c_common" % alias)
    _cache[alias] = pkg
    return pkg


def emulated(pyx=None, name="c_common_emu"):
    import pyxemu

    pyx = pyx or os.path.join(SRC, "pyModeS", "c_common.pyx")
    mod, _ = pyxemu.load(pyx, name)
    return mod


def binary():
    """The pre-built c_common extension compiled from the pinned .pyx, or None."""
    pats = ["/venv/lib/python3.12/site-packages/pyModeS/c_common*.so",
            "/repo/build/lib*/pyModeS/c_common*.so"]
    for p in pats:
        for f in sorted(glob.glob(p)):
            try:
                loader = importlib.machinery.ExtensionFileLoader("pyModeS.c_common", f)
                spec = importlib.util.spec_from_file_location("pyModeS.c_common", f, loader=loader)
                mod = importlib.util.module_from_spec(spec)
                loader.exec_module(mod)
                return mod
            except Exception:
                continue
    return None
