"""Shared Hypothesis strategies."""
import json
import os
import random

from hypothesis import strategies as st

HERE = os.path.dirname(os.path.dirname(os.path.abspath(__file__)))
SUITE = json.load(open(os.path.join(HERE, "fixtures", "suite_frames.json")))

hexcase = st.sampled_from(["U", "L", "M"])


_M = (1 << 64) - 1


def mix64(s):
    """splitmix64 finaliser: a bijection on 64-bit integers with good avalanche."""
    z = (s + 0x9E3779B97F4A7C15) & _M
    z = ((z ^ (z >> 30)) * 0xBF58476D1CE4E5B9) & _M
    z = ((z ^ (z >> 27)) * 0x94D049BB133111EB) & _M
    return z ^ (z >> 31)


def spread(seed, n):
    """n pseudo-random bits as a pure function of a 64-bit seed."""
    v = 0
    k = 0
    got = 0
    while got < n:
        v = (v << 64) | mix64((seed + k * 0xD1342543DE82EF95) & _M)
        k += 1
        got += 64
    return v >> (got - n)


_SEEDS = st.integers(0, _M)


def ubits(n):
    """Uniform n-bit integers.  st.integers() on a wide range is heavily biased towards small magnitudes
    (measured: 2 of 750 long frames started with nibble 5), so the value is the splitmix image of a
    Hypothesis-drawn 64-bit seed: still owned, replayed and shrunk by Hypothesis, but uniform."""
    return _SEEDS.map(lambda s: spread(s, n))


def ufloat(a, b):
    """Uniform float in [a, b) (same construction)."""
    return _SEEDS.map(lambda s: a + (b - a) * (mix64(s) >> 11) / 9007199254740992.0)


def uint(a, b):
    """Uniform integer in [a, b]."""
    return _SEEDS.map(lambda s: a + mix64(s) % (b - a + 1))


def bits(n):
    """n-bit integers: uniform mostly, with all-zero / all-one / sparse / dense mixes."""
    full = (1 << n) - 1
    return st.one_of(
        ubits(n),
        ubits(n),
        ubits(n),
        st.sampled_from([0, full]),
        st.lists(st.integers(0, n - 1), min_size=1, max_size=3).map(lambda l: sum({1 << i for i in l})),
        st.lists(st.integers(0, n - 1), min_size=1, max_size=3).map(lambda l: full ^ sum({1 << i for i in l})),
    )


def frame_ints():
    """(nbits, value) for both Mode S lengths, incl. the suite's frames."""
    return st.one_of(
        bits(112).map(lambda v: (112, v)),
        bits(56).map(lambda v: (56, v)),
        st.sampled_from(SUITE).map(lambda h: (len(h) * 4, int(h, 16))),
    )


addresses = st.one_of(
    ubits(24),
    st.sampled_from([0, 1, 0xFFFFFF, 0xABCDEF, 0xA00000, 0x200000, 0x27FFFF, 0x4840D6, 0xFEDCBA, 0x00000A, 0xF00000]),
    ubits(24).map(lambda a: a | 0xA0B0C0),
)


SPECIAL_ADDRS = (0x000000, 0xFFFFFF, 0x000001, 0x800000, 0x000FFF, 0xFFF000, 0x0000A0, 0xA00000)


def addr24(rng):
    """24-bit address from a random.Random: one in eight is a boundary address (000000 makes the parity field of an AP reply equal to the
    plain CRC of the data, FFFFFF inverts it, leading / trailing zero digits)"""
    x = rng.getrandbits(27)
    return SPECIAL_ADDRS[x & 7] if x >> 24 == 0 else x & 0xFFFFFF
