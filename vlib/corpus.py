"""Real-world frames shipped with the repository's tests (copied to fixtures/corpus): an independent check of the *references*
(CRC polynomial and bit order, AP overlay, altitude and character tables) against transponders, not against my memory of the standards."""
import csv
import os

from vlib.core import VERIF

_D = os.path.join(VERIF, "fixtures", "corpus")


def adsb():
    """[(hex frame, icao, typecode)] - 2000 DF17 frames"""
    with open(os.path.join(_D, "sample_data_adsb.csv"), encoding="utf-8-sig") as f:
        return [(r[1], r[2].upper(), int(r[3])) for r in csv.reader(f) if len(r) >= 4]


def adsb_timed():
    """[(unix time, hex frame, icao, typecode)]"""
    with open(os.path.join(_D, "sample_data_adsb.csv"), encoding="utf-8-sig") as f:
        return [(float(r[0]), r[1], r[2].upper(), int(r[3])) for r in csv.reader(f) if len(r) >= 4]


def commb(df):
    """[(hex frame, icao)] - 5000 DF20 or DF21 replies with the address known from the interrogation"""
    with open(os.path.join(_D, "sample_data_commb_df%d.csv" % df), encoding="utf-8-sig") as f:
        return [(r[2], r[1].upper()) for r in csv.reader(f) if len(r) >= 3]


def blocks(items, ctx, size=100):
    idx = 0
    for start in range(0, len(items), size):
        idx += 1
        if ctx.mine(idx):
            yield start, items[start:start + size]
